//! Stub-fidelity self-test: simrt::channel against the real crossbeam-channel from the registry.
//!  (1) seeded single-thread operation sequences on bounded and unbounded channels must give
//!      identical results (values, Full/Empty/Disconnected, len, is_empty, is_full);
//!  (2) the blocking and disconnection cases, run with real threads on the real crate and under
//!      the simulator on the stub, must end with the same observable outcome.
use simrt::channel as sim;

struct Rng(u64);
impl Rng {
    fn next(&mut self) -> u64 {
        self.0 = self.0.wrapping_add(0x9E3779B97F4A7C15);
        let mut z = self.0;
        z = (z ^ (z >> 30)).wrapping_mul(0xBF58476D1CE4E5B9);
        z = (z ^ (z >> 27)).wrapping_mul(0x94D049BB133111EB);
        z ^ (z >> 31)
    }
    fn below(&mut self, n: u64) -> u64 {
        self.next() % n
    }
}

fn sequences(seed: u64) -> Result<u64, String> {
    let mut r = Rng(seed);
    let cap = if r.below(4) == 0 { None } else { Some(1 + r.below(4) as usize) };
    let (st, sr) = match cap {
        Some(c) => sim::bounded::<u32>(c),
        None => sim::unbounded::<u32>(),
    };
    let (rt, rr) = match cap {
        Some(c) => real_cb::bounded::<u32>(c),
        None => real_cb::unbounded::<u32>(),
    };
    let mut ss = vec![st];
    let mut sv = vec![sr];
    let mut rs = vec![rt];
    let mut rv = vec![rr];
    let mut ops = 0;
    for step in 0..40 {
        let v = step as u32;
        let op = r.below(12);
        ops += 1;
        let (a, b): (String, String) = match op {
            0..=3 if !ss.is_empty() => {
                let i = r.below(ss.len() as u64) as usize;
                (format!("{:?}", ss[i].try_send(v).map_err(|e| (e.is_full(), e.is_disconnected(), e.into_inner()))), format!("{:?}", rs[i].try_send(v).map_err(|e| (e.is_full(), e.is_disconnected(), e.into_inner()))))
            }
            4..=6 if !sv.is_empty() => {
                let i = r.below(sv.len() as u64) as usize;
                (format!("{:?}", sv[i].try_recv()), format!("{:?}", rv[i].try_recv()))
            }
            7 if !sv.is_empty() => (format!("{} {} {}", sv[0].len(), sv[0].is_empty(), sv[0].is_full()), format!("{} {} {}", rv[0].len(), rv[0].is_empty(), rv[0].is_full())),
            8 if !ss.is_empty() => {
                let c = ss[0].clone();
                ss.push(c);
                let c = rs[0].clone();
                rs.push(c);
                (String::new(), String::new())
            }
            9 if !sv.is_empty() => {
                let c = sv[0].clone();
                sv.push(c);
                let c = rv[0].clone();
                rv.push(c);
                (String::new(), String::new())
            }
            10 if !ss.is_empty() => {
                let i = r.below(ss.len() as u64) as usize;
                ss.remove(i);
                rs.remove(i);
                (String::new(), String::new())
            }
            11 if !sv.is_empty() => {
                let i = r.below(sv.len() as u64) as usize;
                sv.remove(i);
                rv.remove(i);
                (String::new(), String::new())
            }
            // a blocking call that cannot block in this state
            _ if !ss.is_empty() && !sv.is_empty() && cap.map(|c| sv[0].len() < c).unwrap_or(true) => (format!("{:?}", ss[0].send(v)), format!("{:?}", rs[0].send(v))),
            _ if !sv.is_empty() && (sv[0].len() > 0 || ss.is_empty()) => (format!("{:?}", sv[0].recv()), format!("{:?}", rv[0].recv())),
            _ => (String::new(), String::new()),
        };
        if a != b {
            return Err(format!("seed {seed} step {step} op {op} cap {cap:?}: stub {a} real {b}"));
        }
    }
    Ok(ops)
}

/// blocking scenarios: outcome strings must match
fn blocking_real(which: u32) -> String {
    use std::thread;
    use std::time::Duration;
    match which {
        0 => {
            // send blocks on a full queue until a recv makes room
            let (tx, rx) = real_cb::bounded::<u32>(1);
            tx.send(1).unwrap();
            let h = thread::spawn(move || {
                tx.send(2).unwrap();
                "sent"
            });
            thread::sleep(Duration::from_millis(50));
            let first = rx.recv().unwrap();
            let r = h.join().unwrap();
            format!("{first} {r} {:?}", rx.recv())
        }
        1 => {
            // recv drains queued items, then reports disconnection
            let (tx, rx) = real_cb::bounded::<u32>(4);
            tx.send(1).unwrap();
            tx.send(2).unwrap();
            drop(tx);
            format!("{:?} {:?} {:?} {:?}", rx.recv(), rx.recv(), rx.recv(), rx.try_recv())
        }
        2 => {
            // a blocked recv is released by the last sender going away
            let (tx, rx) = real_cb::bounded::<u32>(1);
            let h = thread::spawn(move || format!("{:?}", rx.recv()));
            thread::sleep(Duration::from_millis(50));
            drop(tx);
            h.join().unwrap()
        }
        3 => {
            // a blocked send is released with an error by the last receiver going away
            let (tx, rx) = real_cb::bounded::<u32>(1);
            tx.send(1).unwrap();
            let h = thread::spawn(move || format!("{:?}", tx.send(2).map_err(|e| e.0)));
            thread::sleep(Duration::from_millis(50));
            drop(rx);
            h.join().unwrap()
        }
        4 => {
            // recv_timeout on an empty connected queue times out; on a disconnected one it says so
            let (tx, rx) = real_cb::bounded::<u32>(1);
            let a = format!("{:?}", rx.recv_timeout(Duration::from_millis(20)));
            drop(tx);
            format!("{a} {:?}", rx.recv_timeout(Duration::from_millis(20)))
        }
        _ => {
            // a receiver clone kept by the sending side keeps the queue connected (rs-store's SenderChannel)
            let (tx, rx) = real_cb::bounded::<u32>(1);
            let keep = rx.clone();
            drop(rx);
            format!("{:?} {:?} {}", tx.try_send(1), tx.try_send(2).map_err(|e| e.is_full()), keep.len())
        }
    }
}

fn blocking_sim(which: u32, seed: u64) -> String {
    use simrt::thread;
    use std::sync::{Arc, Mutex};
    use std::time::Duration;
    let out = Arc::new(Mutex::new(String::new()));
    let o2 = out.clone();
    let mut cfg = simrt::Config::new(seed);
    cfg.strategy = simrt::Strategy::Uniform;
    let res = simrt::run(cfg, move || {
        let s = match which {
            0 => {
                let (tx, rx) = sim::bounded::<u32>(1);
                tx.send(1).unwrap();
                let h = thread::spawn(move || {
                    tx.send(2).unwrap();
                    "sent"
                });
                thread::sleep(Duration::from_millis(50));
                let first = rx.recv().unwrap();
                let r = h.join().unwrap();
                format!("{first} {r} {:?}", rx.recv())
            }
            1 => {
                let (tx, rx) = sim::bounded::<u32>(4);
                tx.send(1).unwrap();
                tx.send(2).unwrap();
                drop(tx);
                format!("{:?} {:?} {:?} {:?}", rx.recv(), rx.recv(), rx.recv(), rx.try_recv())
            }
            2 => {
                let (tx, rx) = sim::bounded::<u32>(1);
                let h = thread::spawn(move || format!("{:?}", rx.recv()));
                thread::sleep(Duration::from_millis(50));
                drop(tx);
                h.join().unwrap()
            }
            3 => {
                let (tx, rx) = sim::bounded::<u32>(1);
                tx.send(1).unwrap();
                let h = thread::spawn(move || format!("{:?}", tx.send(2).map_err(|e| e.0)));
                thread::sleep(Duration::from_millis(50));
                drop(rx);
                h.join().unwrap()
            }
            4 => {
                let (tx, rx) = sim::bounded::<u32>(1);
                let a = format!("{:?}", rx.recv_timeout(Duration::from_millis(20)));
                drop(tx);
                format!("{a} {:?}", rx.recv_timeout(Duration::from_millis(20)))
            }
            _ => {
                let (tx, rx) = sim::bounded::<u32>(1);
                let keep = rx.clone();
                drop(rx);
                format!("{:?} {:?} {}", tx.try_send(1), tx.try_send(2).map_err(|e| e.is_full()), keep.len())
            }
        };
        *o2.lock().unwrap() = s;
    });
    if res.end != simrt::End::Complete {
        return format!("simulation ended with {:?}", res.end);
    }
    let s = out.lock().unwrap().clone();
    s
}

fn main() {
    let mut ops = 0;
    for seed in 0..20_000u64 {
        match sequences(seed) {
            Ok(n) => ops += n,
            Err(e) => {
                eprintln!("stub-fidelity: MISMATCH {e}");
                std::process::exit(2);
            }
        }
    }
    let mut cases = 0;
    for which in 0..6 {
        let real = blocking_real(which);
        for seed in 0..200 {
            let s = blocking_sim(which, seed);
            if s != real {
                eprintln!("stub-fidelity: MISMATCH blocking case {which} seed {seed}: stub {s:?} real {real:?}");
                std::process::exit(2);
            }
            cases += 1;
        }
    }
    // std::sync::Mutex poisoning is std's own: simrt::sync::Mutex wraps a std mutex
    let m = std::sync::Arc::new(simrt::sync::Mutex::new(0));
    let m2 = m.clone();
    let _ = std::thread::spawn(move || {
        let _g = m2.lock().unwrap();
        std::panic::resume_unwind(Box::new("poison"));
    })
    .join();
    if !m.is_poisoned() || m.lock().is_ok() {
        eprintln!("stub-fidelity: MISMATCH mutex poisoning");
        std::process::exit(2);
    }
    println!("stub-fidelity: {ops} single-thread channel operations over 20000 seeded sequences and {cases} blocking/disconnection runs agree with crossbeam-channel 0.5.17; mutex poisoning is std's");
}
