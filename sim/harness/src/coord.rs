//! Coordinator: fans a check out over pinned worker processes, merges their statistics, writes
//! the evidence file, minimises and persists the first unknown violation as a replay file.

use crate::digest::*;
use crate::model::*;
use crate::props::*;
use crate::worker::*;
use std::sync::atomic::{AtomicBool, AtomicU64, Ordering};
use std::sync::{Arc, Mutex};
use std::time::Instant;

pub const DEFAULT_SEED: u64 = 20261002;
const CHUNK: u64 = 1000;

pub struct CheckArgs {
    pub prop: String,
    pub tier: String,
    pub seed: u64,
    pub workers: usize,
    pub runs: Option<u64>,
    pub budget_s: Option<u64>,
    pub family: Option<String>,
}

/// run the batch and hand back the merged statistics (used by the determinism self-test)
pub fn collect(a: &CheckArgs) -> Result<Stats, String> {
    run_batch(a).map(|x| x.0)
}

pub fn check(a: CheckArgs) -> i32 {
    let t0 = Instant::now();
    let Some(p) = spec(&a.prop) else {
        eprintln!("simcheck: unknown property {}", a.prop);
        return 2;
    };
    let st = match run_batch(&a) {
        Ok((st, _)) => st,
        Err(e) => {
            eprintln!("simcheck: harness error: {e}");
            return 2;
        }
    };
    finish(a, p, st, t0)
}

fn run_batch(a: &CheckArgs) -> Result<(Stats, f64), String> {
    let Some(p) = spec(&a.prop) else {
        return Err(format!("unknown property {}", a.prop));
    };
    let t0 = Instant::now();
    let thorough = a.tier == "thorough";
    let budget_s = a.budget_s.unwrap_or(if thorough { 480 } else { 120 });
    let max_runs = a.runs.unwrap_or(if thorough { u64::MAX / 2 } else { p.quick_runs });
    let next = Arc::new(AtomicU64::new(0));
    let stop = Arc::new(AtomicBool::new(false));
    let merged = Arc::new(Mutex::new(Stats::default()));
    let harness_err = Arc::new(Mutex::new(None::<String>));
    let exe = std::env::current_exe().unwrap();
    let mut hs = vec![];
    for w in 0..a.workers {
        let (next, stop, merged, harness_err, exe) = (next.clone(), stop.clone(), merged.clone(), harness_err.clone(), exe.clone());
        let (prop, seed, fam, tier) = (a.prop.clone(), a.seed, a.family.clone(), a.tier.clone());
        hs.push(std::thread::spawn(move || loop {
            if stop.load(Ordering::SeqCst) || t0.elapsed().as_secs() >= budget_s {
                break;
            }
            let from = next.fetch_add(CHUNK, Ordering::SeqCst);
            if from >= max_runs {
                break;
            }
            let to = (from + CHUNK).min(max_runs);
            let mut from = from;
            // a worker may hand the tail of its chunk back (see Stats::next_from)
            while from < to && !stop.load(Ordering::SeqCst) {
            let mut resume_at = to;
            let mut cmd = std::process::Command::new(&exe);
            cmd.env("VERIF_TIER", &tier).arg("worker").arg(&prop).arg(seed.to_string()).arg(from.to_string()).arg(to.to_string()).arg(w.to_string());
            if let Some(f) = &fam {
                cmd.arg(f);
            }
            // watchdog: a worker that makes no progress for minutes is blocked on something the
            // simulator does not control (e.g. edited code using a real std primitive)
            cmd.stdout(std::process::Stdio::piped()).stderr(std::process::Stdio::piped());
            let out = cmd.spawn().and_then(|mut child| {
                use std::io::Read;
                let started = Instant::now();
                let mut so = child.stdout.take().unwrap();
                let mut se = child.stderr.take().unwrap();
                let t_out = std::thread::spawn(move || {
                    let mut b = Vec::new();
                    let _ = so.read_to_end(&mut b);
                    b
                });
                let t_err = std::thread::spawn(move || {
                    let mut b = Vec::new();
                    let _ = se.read_to_end(&mut b);
                    b
                });
                loop {
                    match child.try_wait()? {
                        Some(status) => {
                            let stdout = t_out.join().unwrap_or_default();
                            let stderr = t_err.join().unwrap_or_default();
                            return Ok(std::process::Output { status, stdout, stderr });
                        }
                        None => {
                            if started.elapsed().as_secs() > 300 {
                                let _ = child.kill();
                                let _ = child.wait();
                                return Err(std::io::Error::new(
                                    std::io::ErrorKind::TimedOut,
                                    format!("worker for runs {from}..{to} made no progress for 300 s: the code under test blocks outside the simulator's control (real lock, real sleep or I/O?)"),
                                ));
                            }
                            std::thread::sleep(std::time::Duration::from_millis(10));
                        }
                    }
                }
            });
            match out {
                Ok(o) if o.status.success() => {
                    let txt = String::from_utf8_lossy(&o.stdout);
                    let line = txt.lines().rev().find(|l| l.starts_with('{')).unwrap_or("");
                    match serde_json::from_str::<Stats>(line) {
                        Ok(s) => {
                            let mut m = merged.lock().unwrap();
                            let found = s.violations_total > 0;
                            if let Some(n) = s.next_from {
                                resume_at = n.max(from + 1);
                            }
                            m.merge(s);
                            if found {
                                stop.store(true, Ordering::SeqCst);
                            }
                        }
                        Err(e) => {
                            *harness_err.lock().unwrap() = Some(format!("worker output unparsable: {e}"));
                            stop.store(true, Ordering::SeqCst);
                        }
                    }
                }
                Ok(o) => {
                    *harness_err.lock().unwrap() = Some(format!(
                        "worker for runs {from}..{to} exited with {:?}: {}",
                        o.status,
                        String::from_utf8_lossy(&o.stderr).lines().rev().take(5).collect::<Vec<_>>().join(" | ")
                    ));
                    stop.store(true, Ordering::SeqCst);
                }
                Err(e) => {
                    *harness_err.lock().unwrap() = Some(format!("cannot spawn worker: {e}"));
                    stop.store(true, Ordering::SeqCst);
                }
            }
            from = resume_at;
            }
        }));
    }
    for h in hs {
        let _ = h.join();
    }
    if let Some(e) = harness_err.lock().unwrap().take() {
        return Err(e);
    }
    let st = std::mem::take(&mut *merged.lock().unwrap());
    Ok((st, t0.elapsed().as_secs_f64()))
}

fn finish(a: CheckArgs, p: &PropSpec, st: Stats, t0: Instant) -> i32 {
    if st.determinism_mismatch > 0 && st.violations.is_empty() {
        // the same seed and program gave two different histories in one process and no oracle
        // objected: state leaks between runs outside the simulator's control
        eprintln!("simcheck: harness error: {} determinism mismatches", st.determinism_mismatch);
        return 2;
    }
    // known findings seen
    let known = known_findings();
    for (k, n) in &st.known_seen {
        let wf = known.get(k).map(|x| x.1.clone()).unwrap_or_default();
        println!("KNOWN-FINDING: property={} {} {} (seen in {} runs)", a.prop, k, wf, n);
    }
    let mut exit = 0;
    let mut replay_path = None;
    if let Some(v) = st.violations.iter().min_by_key(|v| v.run_index) {
        let path = minimise_and_persist(&a, v);
        println!("VIOLATION property={} replay={}", a.prop, path);
        eprintln!("  clause {}:{} family {} run {} seed {}: {}", v.prop, v.clause, v.family, v.run_index, v.seed, v.detail);
        replay_path = Some(path);
        exit = 1;
    }
    write_evidence(&a, p, &st, t0.elapsed().as_secs_f64(), replay_path);
    let dead: Vec<&str> = relevant_probes(&a.prop).iter().filter(|pr| st.probes.get(**pr).copied().unwrap_or(0) == 0).cloned().collect();
    if !dead.is_empty() {
        eprintln!("simcheck: note: probes never hit in this batch: {:?}", dead);
    }
    eprintln!(
        "simcheck: {} {}: {} runs, {} non-trivial distinct, {} distinct schedules, {:.1}s, violations {}",
        a.prop,
        a.tier,
        st.runs,
        st.nontrivial.len(),
        st.schedules.len(),
        t0.elapsed().as_secs_f64(),
        st.violations_total
    );
    exit
}

fn relevant_probes(prop: &str) -> Vec<&'static str> {
    match prop {
        "C04" | "C15" => vec!["dispatch_overlaps_shutdown", "shutdown_with_backlog"],
        "C05" => vec!["dispatch_blocked_on_full"],
        "C06" => vec!["dropped_oldest", "dropped_latest"],
        "C09" => vec!["unsubscribe_overlaps_pipeline"],
        "C11" => vec!["pool_channel_path", "worker_panicked", "shutdown_with_backlog"],
        "C13" => vec!["dispatch_overlaps_shutdown", "iter_dropped_before_end"],
        "C14" => vec![],
        _ => vec![],
    }
}

fn write_evidence(a: &CheckArgs, p: &PropSpec, st: &Stats, wall: f64, replay: Option<String>) {
    let dead: Vec<&str> = relevant_probes(&a.prop).iter().filter(|pr| st.probes.get(**pr).copied().unwrap_or(0) == 0).cloned().collect();
    let ev = serde_json::json!({
        "property_id": a.prop,
        "tier": if a.tier == "thorough" { "thorough" } else { "quick" },
        "seed": a.seed,
        "level": "exploration",
        "wall_s": wall,
        "violations": st.violations_total,
        "coverage": {
            "evaluations": st.runs,
            "distinct_nontrivial": st.nontrivial.len(),
            "rule": format!("one evaluation = one simulated run of a seeded program under a seeded schedule; 85% of the runs are drawn from the families {:?} (weights), 15% uniformly from all nine families (every oracle runs on every run); distinct = distinct (program hash, history hash) pairs; {}", p.families, p.rule),
            "samples": st.samples,
            "runs_per_hour": if wall > 0.0 { (st.runs as f64 / wall * 3600.0) as u64 } else { 0 },
            "seed_first_run_index": 0,
            "seed_last_run_index": st.runs.saturating_sub(1),
            "simulated_time_s": st.sim_ns as f64 / 1e9,
            "steps_total": st.steps,
            "context_switches_total": st.switches,
            "events_total": st.events,
            "runs_by_family": st.by_family,
            "schedulers": st.schedulers,
            "faults_fired": st.faults,
            "fault_injecting_runs": st.faulty_runs,
            "fault_free_runs": st.runs - st.faulty_runs,
            "simulated_threads_panicked": st.threads_panicked,
            "probes": st.probes,
            "dead_probes": dead,
            "distinct_schedules": st.schedules.len(),
            "distinct_histories": st.histories.len(),
            "distinct_abstract_states": st.abstract_states.len(),
            "abstract_state_definition": "per store: (dispatch-queue length, dispatch calls in flight, reducer phase, shutdown invoked, shutdown returned, live pool workers, subscriber-queue occupancy), recomputed from the history after every event",
            "inconclusive": st.inconclusive,
            "determinism_rechecked": { "runs": st.determinism_rechecked, "mismatches": st.determinism_mismatch },
            "components": {
                "real": ["/repo/src (rs-store, current working tree, built with --cfg rs_store_verif)", "rusty_pool 0.7.0 (two import lines rewritten)", "thiserror", "futures-channel", "futures-executor"],
                "stub": ["simrt::sync (Mutex, Condvar, atomics)", "simrt::thread", "simrt::time::Instant (virtual clock)", "simrt::channel in place of crossbeam-channel", "num_cpus (per-run knob)", "scripted reducers/middlewares/subscribers/effects/clients"]
            },
            "known_findings_seen": st.known_seen,
            "violations_of_other_properties_seen_not_counted": st.other_props_seen,
            "replay": replay,
            "first_violations": st.violations,
        },
        "assumptions": [
            "seeded sampling of programs x schedules x faults: a clean batch is evidence, not proof",
            "std Mutex/Condvar/atomics/thread, crossbeam-channel and num_cpus are replaced by simulator stubs with their documented semantics; crossbeam's lock-free internals and weak-memory reorderings are not exercised",
            "one simulated thread runs at a time (sequential consistency); scheduling points before every lock, condvar, atomic, channel, spawn, join and sleep operation",
            "user callbacks are scripted harness code that returns and, apart from get_state(), does not synchronously call back into the store"
        ],
    });
    let _ = std::fs::create_dir_all("/verif/evidence");
    let path = format!("/verif/evidence/{}.json", a.prop);
    std::fs::write(&path, serde_json::to_string_pretty(&ev).unwrap()).expect("write evidence");
}

// ---------------------------------------------------------------------------------------------
// replay files and minimisation

fn find_vio(rec: &RunRecord, prop: &str, clause: &str) -> Option<crate::oracle::Violation> {
    let d = Digest::new(rec);
    let hunt = std::env::var("VERIF_HUNT").ok();
    crate::oracle::check_all(&d)
        .into_iter()
        .find(|v| v.prop == prop && v.clause == clause && hunt.as_deref().map(|h| v.known == Some(h)).unwrap_or(true))
}

/// Threads parked for ever by runs that deadlock stay with the process.  Shrinking makes thousands
/// of runs in this one process and many shrunk programs deadlock (a dropped Join, a dropped
/// Open): past this budget the minimiser stops trying and reports what it has.
static LEAKED: AtomicU64 = AtomicU64::new(0);
const LEAK_BUDGET: u64 = 8000;

fn note_leak(rec: &RunRecord) {
    if matches!(rec.out.end, simrt::End::Deadlock | simrt::End::Leaked) {
        LEAKED.fetch_add(rec.out.blocked.len() as u64, Ordering::Relaxed);
    }
}

fn leak_budget_left() -> bool {
    LEAKED.load(Ordering::Relaxed) < LEAK_BUDGET
}

fn try_prog(prog: &Program, base_seed: u64, prop: &str, clause: &str, tries: u64) -> Option<(u64, RunRecord)> {
    for k in 0..tries {
        if !leak_budget_left() {
            return None;
        }
        let seed = if k == 0 { base_seed } else { crate::rng::run_seed(base_seed, k) };
        let rec = crate::exec::run_program(prog, seed, None, false);
        note_leak(&rec);
        if find_vio(&rec, prop, clause).is_some() {
            return Some((seed, rec));
        }
    }
    None
}

/// one way of making a program smaller (a descriptor: the scale families' programs have a hundred
/// thousand operations, so candidates are built one at a time)
enum Cand {
    DropThread(usize),
    DropOps(usize, usize, usize),
    SimplifyAct(ActId),
    PlainSched,
    NoBuggify,
}

fn apply_cand(p: &Program, c: &Cand) -> Program {
    let mut q = p.clone();
    match c {
        Cand::DropThread(t) => {
            q.threads[*t].clear();
            for ops in q.threads.iter_mut() {
                ops.retain(|o| !matches!(o, Op::Start { thread } | Op::Join { thread } if *thread == *t));
            }
        }
        Cand::DropOps(t, i, j) => {
            let mut k = 0;
            q.threads[*t].retain(|o| {
                let inside = k >= *i && k < *j;
                k += 1;
                !inside || matches!(o, Op::Build { .. })
            });
        }
        Cand::SimplifyAct(a) => {
            q.acts.insert(*a, ActScript::default());
        }
        Cand::PlainSched => q.knobs.sched = Sched::Sticky(900),
        Cand::NoBuggify => {
            q.knobs.spurious_wake_pm = 0;
            q.knobs.weak_cas_pm = 0;
            q.knobs.spawn_fail_pm = 0;
        }
    }
    q
}

fn shrink_candidates(p: &Program) -> Vec<Cand> {
    let mut v = vec![];
    // drop a whole client thread
    for t in (1..p.threads.len()).rev() {
        if !p.threads[t].is_empty() {
            v.push(Cand::DropThread(t));
        }
    }
    // drop a run of operations of a long thread: halves, quarters, ... (delta debugging)
    for t in 0..p.threads.len() {
        let n = p.threads[t].len();
        let mut chunk = n / 2;
        while n > 16 && chunk >= 2 {
            let mut i = 0;
            while i < n {
                v.push(Cand::DropOps(t, i, (i + chunk).min(n)));
                i += chunk;
            }
            chunk /= 2;
        }
    }
    // drop one operation
    for t in 0..p.threads.len() {
        for i in (0..p.threads[t].len()).rev() {
            if !matches!(p.threads[t][i], Op::Build { .. }) {
                v.push(Cand::DropOps(t, i, i + 1));
            }
        }
    }
    // simplify one action's script
    for (a, sc) in &p.acts {
        if *sc != ActScript::default() {
            v.push(Cand::SimplifyAct(*a));
        }
    }
    // simpler knobs
    if p.knobs.sched != Sched::Sticky(900) {
        v.push(Cand::PlainSched);
    }
    if p.knobs.spurious_wake_pm != 0 || p.knobs.weak_cas_pm != 0 || p.knobs.spawn_fail_pm != 0 {
        v.push(Cand::NoBuggify);
    }
    v
}

/// re-run one run index the way a worker does (fresh process, forked child) and report whether the
/// violation (prop, clause) shows there
fn shows_in_fresh_worker(prop_checked: &str, tier: &str, batch_seed: u64, run_index: u64, family: Option<&str>, prop: &str, clause: &str) -> bool {
    let Ok(exe) = std::env::current_exe() else { return false };
    let mut cmd = std::process::Command::new(exe);
    cmd.env("VERIF_TIER", tier).arg("worker").arg(prop_checked).arg(batch_seed.to_string()).arg(run_index.to_string()).arg((run_index + 1).to_string()).arg("0");
    if let Some(f) = family {
        cmd.arg(f);
    }
    let Ok(o) = cmd.output() else { return false };
    let txt = String::from_utf8_lossy(&o.stdout);
    let line = txt.lines().rev().find(|l| l.starts_with('{')).unwrap_or("");
    match serde_json::from_str::<Stats>(line) {
        Ok(st) => st.violations.iter().any(|x| x.prop == prop && x.clause == clause),
        Err(_) => false,
    }
}

/// the history as text for the replay file (for reading; the replay compares the event hash): all of
/// it, or the beginning and the end of a very long one
fn history_text(rec: &RunRecord) -> Vec<String> {
    let line = |e: &crate::world::Ev| format!("t{} {:?}", e.tid, e.k);
    if rec.ev.len() <= 4_000 {
        return rec.ev.iter().map(line).collect();
    }
    let mut v: Vec<String> = rec.ev[..1_000].iter().map(line).collect();
    v.push(format!("... {} events left out ...", rec.ev.len() - 2_500));
    v.extend(rec.ev[rec.ev.len() - 1_500..].iter().map(line));
    v
}

pub fn minimise_and_persist(a: &CheckArgs, v: &VioRec) -> String {
    let prop_checked: &str = &a.prop;
    let t0 = Instant::now();
    let prog0 = crate::gen::generate(&v.family, v.seed);
    let (prop, clause) = (v.prop.as_str(), v.clause.as_str());
    let mut best = prog0.clone();
    let mut best_seed = v.seed;
    let mut best_rec = crate::exec::run_program(&best, best_seed, None, false);
    if find_vio(&best_rec, prop, clause).is_none() {
        // The run depends on something this process does not share with the worker's child - in
        // practice the state of the allocator (a changed tree that compares addresses).  If it shows
        // again in a fresh worker run, that is what the replay file asks for.
        if shows_in_fresh_worker(prop_checked, &a.tier, a.seed, v.run_index, a.family.as_deref(), prop, clause) {
            let file = serde_json::json!({
                "property": prop_checked,
                "finding": v.known,
                "oracle_property": prop,
                "clause": clause,
                "detail": v.detail,
                "family": v.family,
                "original_seed": v.seed,
                "original_run_index": v.run_index,
                "replay_kind": "fresh-worker-run",
                "batch_seed": a.seed,
                "tier": a.tier,
                "family_arg": a.family,
                "not_minimised": "the violation shows in a fresh worker process but not when the run is repeated inside another process: it depends on process state outside the simulator (allocator addresses?)",
            });
            let _ = std::fs::create_dir_all("/verif/replays");
            let path = format!("/verif/replays/{}-{}.json", prop_checked, v.seed);
            std::fs::write(&path, serde_json::to_string_pretty(&file).unwrap()).expect("write replay");
            return path;
        }
        eprintln!("simcheck: harness error: violation did not reproduce in the coordinator nor in a fresh worker process");
        std::process::exit(2);
    }
    // the unminimised run, as recorded by this (so far simulation-free) process - its first
    // simulation, like the first run of a fresh process: the fallback should the minimised file not
    // reproduce in a fresh process
    let orig_dec = best_rec.out.decisions.clone();
    let orig_hash = best_rec.history_hash();
    let orig_switches = best_rec.out.context_switches;
    let orig_detail = find_vio(&best_rec, prop, clause).map(|x| x.detail).unwrap_or_default();
    let orig_excerpt: Vec<String> = history_text(&best_rec);
    // 1. program shrinking
    let mut progress = true;
    while progress && t0.elapsed().as_secs() < 40 && leak_budget_left() {
        progress = false;
        // a long program is expensive to run: fewer seeds per candidate
        let big = best.threads.iter().map(|t| t.len()).sum::<usize>() > 2_000;
        for c in shrink_candidates(&best) {
            if t0.elapsed().as_secs() >= 40 || !leak_budget_left() {
                break;
            }
            let cand = apply_cand(&best, &c);
            if let Some((seed, rec)) = try_prog(&cand, best_seed, prop, clause, if big { 2 } else { 24 }) {
                best = cand;
                best_seed = seed;
                best_rec = rec;
                progress = true;
                break;
            }
        }
    }
    // 2. schedule shrinking: replace regions of decisions by "stay on the current thread"
    let mut dec = best_rec.out.decisions.clone();
    let mut chunk = (dec.len() / 2).max(1);
    while chunk >= 1 && t0.elapsed().as_secs() < 60 && leak_budget_left() {
        let mut i = 0;
        while i < dec.len() && leak_budget_left() {
            let end = (i + chunk).min(dec.len());
            if dec[i..end].iter().all(|d| *d == 0xFFFD) {
                i = end;
                continue;
            }
            let mut cand = dec.clone();
            for d in cand[i..end].iter_mut() {
                *d = 0xFFFD;
            }
            let rec = crate::exec::run_program(&best, best_seed, Some(cand.clone()), false);
            note_leak(&rec);
            if find_vio(&rec, prop, clause).is_some() {
                dec = cand;
                best_rec = rec;
            }
            i = end;
        }
        if chunk == 1 {
            break;
        }
        chunk /= 2;
    }
    // 3. the normalised decision list of the final run replays strictly
    let final_dec = best_rec.out.decisions.clone();
    let strict = crate::exec::run_program(&best, best_seed, Some(final_dec.clone()), true);
    let (rec, dec_out) = if find_vio(&strict, prop, clause).is_some() && strict.history_hash() == best_rec.history_hash() {
        (strict, final_dec)
    } else {
        // fall back to the unminimised schedule of the shrunk program
        let r = crate::exec::run_program(&best, best_seed, None, false);
        let dl = r.out.decisions.clone();
        (r, dl)
    };
    let vio = find_vio(&rec, prop, clause);
    let switches = rec.out.context_switches;
    let excerpt: Vec<String> = history_text(&rec);
    let file = serde_json::json!({
        "property": prop_checked,
        "finding": v.known,
        "oracle_property": prop,
        "clause": clause,
        "detail": vio.map(|x| x.detail).unwrap_or_default(),
        "family": v.family,
        "original_seed": v.seed,
        "original_run_index": v.run_index,
        "seed": best_seed,
        "program": best,
        "decisions": dec_out,
        "event_hash": rec.history_hash(),
        "context_switches": switches,
        "ops_before_minimisation": prog0.threads.iter().map(|t| t.len()).sum::<usize>(),
        "ops_after_minimisation": rec.prog.threads.iter().map(|t| t.len()).sum::<usize>(),
        "history": excerpt,
    });
    let _ = std::fs::create_dir_all("/verif/replays");
    let path = match std::env::var("VERIF_HUNT") {
        Ok(h) => {
            let _ = std::fs::create_dir_all("/verif/findings");
            format!("/verif/findings/{}-{}.json", h, prop_checked)
        }
        Err(_) => format!("/verif/replays/{}-{}.json", prop_checked, v.seed),
    };
    std::fs::write(&path, serde_json::to_string_pretty(&file).unwrap()).expect("write replay");
    // the file must reproduce in a FRESH process (this one has run thousands of simulations while
    // shrinking; a changed tree may keep process-wide state)
    let reproduces = |path: &str| -> bool {
        std::env::current_exe()
            .ok()
            .and_then(|exe| std::process::Command::new(exe).arg("replay").arg(path).output().ok())
            .map(|o| o.status.code() == Some(1) && String::from_utf8_lossy(&o.stderr).contains("identical"))
            .unwrap_or(false)
    };
    if !reproduces(&path) {
        let file0 = serde_json::json!({
            "property": prop_checked,
            "finding": v.known,
            "oracle_property": prop,
            "clause": clause,
            "detail": orig_detail,
            "family": v.family,
            "original_seed": v.seed,
            "original_run_index": v.run_index,
            "seed": v.seed,
            "program": prog0,
            "decisions": orig_dec,
            "event_hash": orig_hash,
            "context_switches": orig_switches,
            "not_minimised": "the minimised schedule did not reproduce in a fresh process (process-wide state in the code under test?); this is the run as found",
            "history": orig_excerpt,
        });
        std::fs::write(&path, serde_json::to_string_pretty(&file0).unwrap()).expect("write replay");
        if !reproduces(&path) {
            eprintln!("simcheck: harness error: the violation {prop}:{clause} (family {}, seed {}) does not reproduce in a fresh process", v.family, v.seed);
            std::process::exit(2);
        }
    }
    path
}

/// Determinism self-test: the same run indices in worker processes of two different pool sizes
/// (hence different cores, chunk interleavings and process lifetimes) must give identical
/// histories and decision lists.
pub fn selftest_determinism(runs: u64) -> i32 {
    std::env::set_var("VERIF_DUMP_HASHES", "1");
    let mut bad = 0u64;
    let mut total = 0u64;
    for prop in ["C01", "C04", "C05", "C09", "C11", "C12", "C13", "C17", "C19"] {
        let mk = |workers: usize| CheckArgs { prop: prop.to_string(), tier: "quick".into(), seed: DEFAULT_SEED, workers, runs: Some(runs), budget_s: Some(600), family: None };
        let a = match collect(&mk(16)) {
            Ok(s) => s,
            Err(e) => {
                eprintln!("simcheck: harness error: {e}");
                return 2;
            }
        };
        let b = match collect(&mk(3)) {
            Ok(s) => s,
            Err(e) => {
                eprintln!("simcheck: harness error: {e}");
                return 2;
            }
        };
        let ma: std::collections::BTreeMap<u64, (u64, u64)> = a.run_hashes.iter().map(|x| (x.0, (x.1, x.2))).collect();
        let mut n = 0;
        for (i, h, dh) in &b.run_hashes {
            if let Some(x) = ma.get(i) {
                n += 1;
                if *x != (*h, *dh) {
                    bad += 1;
                    if bad < 5 {
                        eprintln!("selftest-determinism: {prop} run {i}: histories differ between a 16-worker and a 3-worker batch");
                    }
                }
            }
        }
        total += n;
        eprintln!("selftest-determinism: {prop}: {n} runs compared across two batches, {} fresh-process re-runs", a.determinism_rechecked + b.determinism_rechecked);
        bad += a.determinism_mismatch + b.determinism_mismatch;
    }
    println!("selftest-determinism: {total} runs compared, {bad} mismatches");
    if bad > 0 {
        2
    } else {
        0
    }
}

pub fn replay(path: &str) -> i32 {
    let Ok(txt) = std::fs::read_to_string(path) else {
        eprintln!("simcheck: cannot read {path}");
        return 2;
    };
    let Ok(f) = serde_json::from_str::<serde_json::Value>(&txt) else {
        eprintln!("simcheck: {path} is not JSON");
        return 2;
    };
    if f["replay_kind"].as_str() == Some("fresh-worker-run") {
        let prop = f["oracle_property"].as_str().unwrap_or("");
        let clause = f["clause"].as_str().unwrap_or("");
        let checked = f["property"].as_str().unwrap_or(prop);
        let shows = shows_in_fresh_worker(
            checked,
            f["tier"].as_str().unwrap_or("quick"),
            f["batch_seed"].as_u64().unwrap_or(0),
            f["original_run_index"].as_u64().unwrap_or(0),
            f["family_arg"].as_str(),
            prop,
            clause,
        );
        return if shows {
            println!("VIOLATION property={} replay={}", checked, path);
            eprintln!("  clause {}:{}: {} (fresh worker run)", prop, clause, f["detail"].as_str().unwrap_or(""));
            1
        } else {
            eprintln!("simcheck: the fresh worker run did not violate {prop}:{clause}");
            0
        };
    }
    let prog: Program = match serde_json::from_value(f["program"].clone()) {
        Ok(p) => p,
        Err(e) => {
            eprintln!("simcheck: bad program in replay file: {e}");
            return 2;
        }
    };
    let seed = f["seed"].as_u64().unwrap_or(0);
    let dec: Vec<u16> = f["decisions"].as_array().map(|a| a.iter().map(|x| x.as_u64().unwrap_or(0) as u16).collect()).unwrap_or_default();
    let prop = f["oracle_property"].as_str().unwrap_or("");
    let clause = f["clause"].as_str().unwrap_or("");
    let checked = f["property"].as_str().unwrap_or(prop);
    let rec = crate::exec::run_program(&prog, seed, Some(dec), true);
    if rec.out.end == simrt::End::ReplayDiverged {
        eprintln!("simcheck: replay diverged (the code under test makes different scheduling-relevant choices than when the file was recorded)");
        return 2;
    }
    let same_hash = Some(rec.history_hash()) == f["event_hash"].as_u64();
    match find_vio(&rec, prop, clause) {
        Some(v) => {
            println!("VIOLATION property={} replay={}", checked, path);
            eprintln!("  clause {}:{}: {} (event log hash {})", prop, clause, v.detail, if same_hash { "identical" } else { "differs" });
            1
        }
        None => {
            eprintln!("simcheck: replay ran to the end without violating {prop}:{clause} (event log hash {})", if same_hash { "identical" } else { "differs" });
            0
        }
    }
}
