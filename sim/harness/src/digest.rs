//! Digest of one recorded history: calls, per-store pipelines, channels, shutdown calls.

use crate::model::*;
use crate::world::*;
use std::collections::BTreeMap;

pub struct RunRecord {
    pub prog: Program,
    pub seed: u64,
    pub out: simrt::Outcome,
    pub ev: Vec<Ev>,
}

impl RunRecord {
    pub fn history_hash(&self) -> u64 {
        use std::hash::{Hash, Hasher};
        let mut h = std::collections::hash_map::DefaultHasher::new();
        self.ev.hash(&mut h);
        h.finish()
    }
}

#[derive(Clone, Debug)]
pub struct Call {
    pub thr: usize,
    pub idx: usize,
    pub op: OpK,
    pub inv: usize,
    pub ret: Option<usize>,
    pub res: Option<Res>,
    pub tid: usize,
}

impl Call {
    pub fn ret_or_max(&self) -> usize {
        self.ret.unwrap_or(usize::MAX)
    }
    pub fn ok(&self) -> bool {
        self.res == Some(Res::Ok)
    }
}

/// one pipeline instance: a maximal run of reducer-context events for the same action
#[derive(Clone, Debug)]
pub struct Inst {
    pub act: ActId,
    pub first: usize,
    pub last: usize,
    pub evs: Vec<usize>,
    /// state before / after this instance (n, h)
    pub before: (u32, u64),
    pub after: (u32, u64),
}

#[derive(Clone, Copy, Debug, PartialEq, Eq)]
pub enum NotifyExp {
    Must,
    MustNot,
    Optional,
}

pub struct SD {
    pub idx: usize,
    pub model: BuiltModel,
    pub built: Option<bool>,
    pub build_call: Option<usize>,
    pub dchan: Option<u32>,
    pub dchan_cap: Option<usize>,
    pub pool_chan: Option<u32>,
    pub rtid: Option<usize>,
    pub insts: Vec<Inst>,
    pub dispatches: Vec<usize>,
    pub shutdowns: Vec<usize>,
    pub first_shutdown_inv: Option<usize>,
    pub added_reducers: Vec<(u32, usize)>,
    pub added_mws: Vec<(u32, usize)>,
    /// a Stop/DropStore call that returned, did not overlap another shutdown call and in
    /// which no timed wait expired (call index); the first such by return order
    pub clean_stop: Option<usize>,
}

pub struct Digest<'a> {
    pub run: &'a RunRecord,
    pub ev: &'a [Ev],
    pub prog: &'a Program,
    pub act_store: BTreeMap<ActId, usize>,
    pub tid_name: BTreeMap<usize, String>,
    pub calls: Vec<Call>,
    pub stores: Vec<SD>,
    /// registration -> (sub, store, call index)
    pub regs: BTreeMap<usize, (usize, usize, usize)>,
    /// channel created inside an AddSub (channeled) call: reg -> chan
    pub reg_chan: BTreeMap<usize, u32>,
    /// channel created inside an Iter call: it -> chan
    pub iter_chan: BTreeMap<usize, u32>,
    /// thread spawned inside an AddSub (channeled) call: reg -> tid
    pub reg_consumer: BTreeMap<usize, usize>,
    pub complete: bool,
    /// look-up tables over the history (a run may hold tens of thousands of registrations)
    pub idx: Index,
}

#[derive(Default)]
pub struct Index {
    /// sub -> its notifications (act, n, h, sel, position in the history)
    pub logs: std::collections::HashMap<usize, Vec<(ActId, u32, u64, u8, usize)>>,
    /// sub -> positions of its on_unsubscribe callbacks
    pub unsub_evs: std::collections::HashMap<usize, Vec<usize>>,
    /// sub -> number of registrations
    pub nregs: std::collections::HashMap<usize, usize>,
    /// reg -> unsubscribe() calls that were made (indices into calls, in call order)
    pub unsub_calls: std::collections::HashMap<usize, Vec<usize>>,
    /// (store, action) -> its first dispatch call
    pub dispatch_of: std::collections::HashMap<(usize, ActId), usize>,
}

impl<'a> Digest<'a> {
    pub fn new(run: &'a RunRecord) -> Digest<'a> {
        let ev = &run.ev[..];
        let prog = &run.prog;
        let act_store = act_store_map(prog);
        let mut tid_name = BTreeMap::new();
        let mut calls: Vec<Call> = vec![];
        let mut open: BTreeMap<(usize, usize), usize> = BTreeMap::new();
        for (i, e) in ev.iter().enumerate() {
            match &e.k {
                K::Spawn { tid, name, .. } => {
                    if let Some(n) = name {
                        tid_name.insert(*tid, n.clone());
                    }
                }
                K::Inv { thr, idx, op } => {
                    open.insert((*thr, *idx), calls.len());
                    calls.push(Call { thr: *thr, idx: *idx, op: op.clone(), inv: i, ret: None, res: None, tid: e.tid });
                }
                K::Ret { thr, idx, res } => {
                    if let Some(c) = open.remove(&(*thr, *idx)) {
                        calls[c].ret = Some(i);
                        calls[c].res = Some(res.clone());
                    }
                }
                _ => {}
            }
        }
        // channels created inside bracketed calls
        let mut reg_chan = BTreeMap::new();
        let mut iter_chan = BTreeMap::new();
        let mut regs = BTreeMap::new();
        let mut build_chans: BTreeMap<usize, Vec<(u32, Option<usize>)>> = BTreeMap::new();
        let mut build_first_spawn: BTreeMap<usize, usize> = BTreeMap::new();
        let mut reg_consumer = BTreeMap::new();
        for (ci, c) in calls.iter().enumerate() {
            let end = c.ret.unwrap_or(ev.len());
            let chans = || {
                ev[c.inv..end].iter().filter_map(|e| match &e.k {
                    K::ChanNew { chan, cap } if e.tid == c.tid => Some((*chan, *cap)),
                    _ => None,
                })
            };
            match &c.op {
                OpK::AddSub { store, sub, reg } => {
                    regs.insert(*reg, (*sub, *store, ci));
                    if let Some((ch, _)) = chans().next() {
                        reg_chan.insert(*reg, ch);
                    }
                    if let Some(t) = ev[c.inv..end].iter().find_map(|e| match &e.k {
                        K::Spawn { tid, parent, .. } if *parent == c.tid => Some(*tid),
                        _ => None,
                    }) {
                        reg_consumer.insert(*reg, t);
                    }
                }
                OpK::Iter { it, .. } => {
                    if let Some((ch, _)) = chans().next() {
                        iter_chan.insert(*it, ch);
                    }
                }
                OpK::Build { store } => {
                    build_chans.insert(*store, chans().collect());
                    if let Some(t) = ev[c.inv..end].iter().find_map(|e| match &e.k {
                        K::Spawn { tid, parent, .. } if *parent == c.tid => Some(*tid),
                        _ => None,
                    }) {
                        build_first_spawn.insert(*store, t);
                    }
                }
                _ => {}
            }
        }
        let complete = matches!(run.out.end, simrt::End::Complete | simrt::End::Leaked);
        let mut idx = Index::default();
        for (i, e) in ev.iter().enumerate() {
            match &e.k {
                K::NotB { sub, act, n, h, sel } => idx.logs.entry(*sub).or_default().push((*act, *n, *h, *sel, i)),
                K::Unsub { sub } => idx.unsub_evs.entry(*sub).or_default().push(i),
                _ => {}
            }
        }
        for x in regs.values() {
            *idx.nregs.entry(x.0).or_default() += 1;
        }
        for (ci, c) in calls.iter().enumerate() {
            if let OpK::Unsub { reg } = c.op {
                if c.res != Some(Res::Skipped) {
                    idx.unsub_calls.entry(reg).or_default().push(ci);
                }
            }
        }
        let mut d = Digest {
            run,
            ev,
            prog,
            act_store,
            tid_name,
            calls,
            stores: vec![],
            regs,
            reg_chan,
            iter_chan,
            reg_consumer,
            complete,
            idx,
        };
        for s in 0..prog.stores.len() {
            let mut sd = d.store_digest(s, build_chans.get(&s));
            if sd.rtid.is_none() {
                // no reducer-context callback was seen: the reducer loop is the pool's first task
                sd.rtid = build_first_spawn.get(&s).cloned();
            }
            d.stores.push(sd);
        }
        for s in 0..d.stores.len() {
            for &c in &d.stores[s].dispatches {
                if let OpK::Dispatch { act, .. } = d.calls[c].op {
                    d.idx.dispatch_of.entry((s, act)).or_insert(c);
                }
            }
        }
        d
    }

    pub fn sub_kind(&self, sub: usize) -> &SubKind {
        &self.prog.subs[sub].kind
    }

    fn is_rctx(&self, s: usize, e: &Ev) -> Option<ActId> {
        match &e.k {
            K::RedB { store, act, .. }
            | K::RedE { store, act, .. }
            | K::MwB { store, act, .. }
            | K::MwE { store, act, .. }
                if *store == s =>
            {
                Some(*act)
            }
            K::NotB { sub, act, .. } | K::NotE { sub, act }
                if *self.sub_kind(*sub) == SubKind::Direct && self.act_store.get(act) == Some(&s) =>
            {
                Some(*act)
            }
            K::SelCb { act, .. } if self.act_store.get(act) == Some(&s) => Some(*act),
            _ => None,
        }
    }

    fn store_digest(&self, s: usize, bchans: Option<&Vec<(u32, Option<usize>)>>) -> SD {
        let cfg = &self.prog.stores[s];
        let model = builder_model(&cfg.builder);
        let mut sd = SD {
            idx: s,
            model,
            built: None,
            build_call: None,
            dchan: None,
            dchan_cap: None,
            pool_chan: None,
            rtid: None,
            insts: vec![],
            dispatches: vec![],
            shutdowns: vec![],
            first_shutdown_inv: None,
            added_reducers: vec![],
            added_mws: vec![],
            clean_stop: None,
        };
        // the dispatch queue is the channel a dispatch() call sends on (or finds full)
        for c in &self.calls {
            if !matches!(c.op, OpK::Dispatch { store, .. } if store == s) || c.thr >= MW_THR {
                continue;
            }
            let end = c.ret.unwrap_or(self.ev.len());
            if let Some((ch, _)) = self.ev[c.inv..end].iter().find_map(|e| match &e.k {
                K::ChSend { chan, .. } | K::ChFull { chan } if e.tid == c.tid => Some((*chan, ())),
                _ => None,
            }) {
                sd.dchan = Some(ch);
                sd.dchan_cap = self.ev.iter().find_map(|e| match &e.k {
                    K::ChanNew { chan, cap } if *chan == ch => *cap,
                    _ => None,
                });
                break;
            }
        }
        if let Some(v) = bchans {
            // inside build(): first the dispatch queue (bounded), then the pool's job channel
            // (fallback when no dispatch call touched a queue: the bounded channel created in
            // build() that anybody ever used; an unused spare channel is not the dispatch queue)
            let used = |ch: u32| {
                self.ev.iter().any(|e| match &e.k {
                    K::ChSend { chan, .. } | K::ChRecv { chan, .. } | K::ChFull { chan } => *chan == ch,
                    K::Block { on: BlockOn::ChanRecv(c) } | K::Block { on: BlockOn::ChanSend(c) } => *c == ch,
                    _ => false,
                })
            };
            for (ch, cap) in v {
                if cap.is_some() && sd.dchan.is_none() && used(*ch) {
                    sd.dchan = Some(*ch);
                    sd.dchan_cap = *cap;
                } else if cap.is_none() && sd.pool_chan.is_none() {
                    sd.pool_chan = Some(*ch);
                }
            }
        }
        for (ci, c) in self.calls.iter().enumerate() {
            match &c.op {
                OpK::Build { store } if *store == s => {
                    sd.build_call = Some(ci);
                    if let Some(Res::Built(b)) = c.res {
                        sd.built = Some(b);
                    }
                }
                OpK::Dispatch { store, .. } if *store == s => sd.dispatches.push(ci),
                OpK::Close { store } | OpK::Stop { store } | OpK::DropStore { store } if *store == s => {
                    if c.res != Some(Res::Skipped) {
                        sd.shutdowns.push(ci);
                    }
                }
                OpK::AddReducer { store, tag } if *store == s => sd.added_reducers.push((*tag, ci)),
                OpK::AddMiddleware { store, tag } if *store == s => sd.added_mws.push((*tag, ci)),
                _ => {}
            }
        }
        sd.first_shutdown_inv = sd.shutdowns.iter().map(|&c| self.calls[c].inv).min();
        // clean stop
        let mut best: Option<(usize, usize)> = None;
        for &ci in &sd.shutdowns {
            let c = &self.calls[ci];
            if !matches!(c.op, OpK::Stop { .. } | OpK::DropStore { .. }) {
                continue;
            }
            let Some(ret) = c.ret else { continue };
            let overlaps = sd.shutdowns.iter().any(|&o| {
                o != ci && {
                    let oc = &self.calls[o];
                    oc.inv < ret && oc.ret_or_max() > c.inv
                }
            });
            // a stop() that gave up after its timeout leaves the store running: neither it nor any
            // later stop() is a barrier
            let tainted = sd.shutdowns.iter().any(|&o| {
                let oc = &self.calls[o];
                oc.inv < ret && matches!(oc.op, OpK::Stop { .. } | OpK::DropStore { .. }) && self.timer_in_call(oc)
            });
            if overlaps || tainted {
                continue;
            }
            if best.map(|(_, r)| ret < r).unwrap_or(true) {
                best = Some((ci, ret));
            }
        }
        sd.clean_stop = best.map(|b| b.0);
        // pipeline instances
        let mut cur: Option<Inst> = None;
        let mut last_state = (0u32, 0u64);
        for (i, e) in self.ev.iter().enumerate() {
            let Some(act) = self.is_rctx(s, e) else { continue };
            if sd.rtid.is_none() {
                if matches!(e.k, K::RedB { .. } | K::MwB { .. }) {
                    sd.rtid = Some(e.tid);
                }
            }
            let same = cur.as_ref().map(|c| c.act == act).unwrap_or(false);
            if !same {
                if let Some(c) = cur.take() {
                    last_state = c.after;
                    sd.insts.push(c);
                }
                cur = Some(Inst { act, first: i, last: i, evs: vec![], before: last_state, after: last_state });
            }
            let c = cur.as_mut().unwrap();
            c.last = i;
            c.evs.push(i);
            if let K::RedE { n, h, .. } = &e.k {
                c.after = (*n, *h);
            }
        }
        if let Some(c) = cur.take() {
            sd.insts.push(c);
        }
        sd
    }

    /// did a timed wait of the calling thread expire inside this call?
    pub fn timer_in_call(&self, c: &Call) -> bool {
        let end = c.ret.unwrap_or(self.ev.len());
        self.ev[c.inv..end].iter().any(|e| e.tid == c.tid && matches!(e.k, K::Timer { .. }))
    }

    pub fn policy(&self, s: usize) -> Policy {
        self.stores[s].model.policy
    }

    /// positions of each action in the list of instances
    pub fn inst_positions(&self, s: usize) -> BTreeMap<ActId, Vec<usize>> {
        let mut m: BTreeMap<ActId, Vec<usize>> = BTreeMap::new();
        for (i, inst) in self.stores[s].insts.iter().enumerate() {
            m.entry(inst.act).or_default().push(i);
        }
        m
    }

    pub fn hook_events(&self, inst: &Inst, hook: u8) -> Vec<(u32, u8, usize)> {
        // (tag, verdict, removed) of MwE events of this hook, in order
        inst.evs
            .iter()
            .filter_map(|&i| match &self.ev[i].k {
                K::MwE { tag, hook: h, verdict, removed, .. } if *h == hook => Some((*tag, *verdict, *removed)),
                _ => None,
            })
            .collect()
    }

    pub fn vetoed(&self, inst: &Inst) -> bool {
        self.hook_events(inst, 0).iter().any(|x| x.1 == Verdict::Done as u8)
    }

    pub fn red_ends(&self, inst: &Inst) -> Vec<(u32, bool, Option<EffId>, usize)> {
        inst.evs
            .iter()
            .filter_map(|&i| match &self.ev[i].k {
                K::RedE { tag, keep, eff, .. } => Some((*tag, *keep, *eff, i)),
                _ => None,
            })
            .collect()
    }

    pub fn notify_exp(&self, inst: &Inst) -> NotifyExp {
        let suppressed = self.hook_events(inst, 2).iter().any(|x| x.1 == Verdict::Done as u8);
        if suppressed {
            return NotifyExp::MustNot;
        }
        if self.vetoed(inst) {
            return NotifyExp::Optional;
        }
        let re = self.red_ends(inst);
        if re.is_empty() {
            return NotifyExp::Optional;
        }
        let keeps = re.iter().filter(|r| r.1).count();
        if keeps == 0 {
            NotifyExp::Must
        } else if keeps == re.len() {
            NotifyExp::MustNot
        } else {
            NotifyExp::Optional
        }
    }

    pub fn dispatch_call_of(&self, s: usize, act: ActId) -> Option<&Call> {
        self.idx.dispatch_of.get(&(s, act)).map(|&c| &self.calls[c])
    }

    /// per pipeline of store s: (subscribers must be told, invocation of its dispatch call, end bound)
    pub fn inst_table(&self, s: usize) -> Vec<(bool, Option<usize>, usize)> {
        self.stores[s]
            .insts
            .iter()
            .map(|inst| (self.notify_exp(inst) == NotifyExp::Must, self.dispatch_call_of(s, inst.act).map(|c| c.inv), self.inst_end_bound(s, inst)))
            .collect()
    }

    pub fn has_lossy_channeled(&self, s: usize) -> bool {
        self.regs.values().any(|(sub, st, _)| {
            *st == s
                && matches!(self.sub_kind(*sub), SubKind::Channeled { policy, .. } if *policy != Policy::Block)
        })
    }

    /// an upper bound for the end of a pipeline instance: the reducer's next take from the
    /// dispatch queue (callbacks on other threads, e.g. channeled deliveries, are not in `last`)
    pub fn inst_end_bound(&self, s: usize, inst: &Inst) -> usize {
        let sd = &self.stores[s];
        self.ev[inst.last..]
            .iter()
            .position(|e| matches!(&e.k, K::ChRecv { chan, .. } if Some(*chan) == sd.dchan) && Some(e.tid) == sd.rtid)
            .map(|p| inst.last + p)
            .unwrap_or(self.ev.len())
    }

    /// the store was shut down and every simulated thread ran to its end: whatever was accepted
    /// has had every chance to be processed, even if a stop() gave up after its timeout
    pub fn drained(&self, s: usize) -> bool {
        self.run.out.end == simrt::End::Complete && !self.stores[s].shutdowns.is_empty()
    }

    /// the event index after which store s certainly does nothing any more: the return of a
    /// clean stop, or (on a fully drained run) the exit of the thread that hosted the reducer loop
    pub fn end_of_store(&self, s: usize) -> Option<usize> {
        let sd = &self.stores[s];
        if let Some(c) = sd.clean_stop {
            return self.calls[c].ret;
        }
        if self.drained(s) {
            let rt = sd.rtid?;
            return self.ev.iter().position(|e| matches!(&e.k, K::Exit { tid, .. } if *tid == rt));
        }
        None
    }

    pub fn store_name(&self, s: usize) -> &str {
        &self.stores[s].model.name
    }
}
