//! Run one program under the simulator and return its record.
use crate::digest::RunRecord;
use crate::model::*;
use crate::world::*;
use std::sync::Arc;

pub fn strategy(s: &Sched) -> simrt::Strategy {
    match s {
        Sched::Uniform => simrt::Strategy::Uniform,
        Sched::Sticky(p) => simrt::Strategy::Sticky(*p),
        Sched::Pct { d, horizon } => simrt::Strategy::Pct { d: *d, horizon: *horizon },
    }
}

pub fn run_program(prog: &Program, seed: u64, forced: Option<Vec<u16>>, strict: bool) -> RunRecord {
    let hist = Arc::new(Hist::default());
    let mut cfg = simrt::Config::new(seed);
    cfg.strategy = strategy(&prog.knobs.sched);
    cfg.step_limit = prog.knobs.step_limit;
    cfg.cpus = prog.knobs.cpus;
    cfg.buggify = simrt::Buggify {
        spurious_wake_pm: prog.knobs.spurious_wake_pm,
        weak_cas_pm: prog.knobs.weak_cas_pm,
        spawn_fail_pm: prog.knobs.spawn_fail_pm,
        spawn_fail_suffix: Some("-channeled-subscriber".to_string()),
    };
    cfg.forced = forced;
    cfg.strict = strict;
    cfg.sink = Some(hist.sink());
    let w = World::new(prog.clone(), hist.clone());
    let out = simrt::run(cfg, move || {
        w.run_thread(0);
        w.teardown();
        if !simrt::wait_others() {
            let b = simrt::blocked_snapshot();
            w.log(K::Leaked { threads: b.into_iter().map(|x| (x.tid, x.obj.into())).collect() });
        }
        drop(w);
    });
    let ev = std::mem::take(&mut *hist.ev.lock().unwrap());
    RunRecord { prog: prog.clone(), seed, out, ev }
}
