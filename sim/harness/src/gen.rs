//! Seeded generators of scenario programs, one per family (DESIGN.md §4.2).

use crate::model::*;
use crate::rng::Rng;
use std::collections::BTreeMap;

pub struct Gen {
    pub rng: Rng,
    /// size multiplier: 1 in the quick tier; the thorough tier draws larger programs for half of its runs
    pub scale: u64,
    pub next_act: ActId,
    pub next_eff: EffId,
    pub acts: BTreeMap<ActId, ActScript>,
}

pub const CAPS: [usize; 5] = [1, 2, 3, 5, 16];

/// set once per process from the tier (1 = quick, 2 = thorough)
pub static SCALE: std::sync::atomic::AtomicU32 = std::sync::atomic::AtomicU32::new(1);

impl Gen {
    pub fn new(seed: u64) -> Gen {
        let big = SCALE.load(std::sync::atomic::Ordering::Relaxed) > 1 && seed % 2 == 0;
        Gen { rng: Rng::new(seed), scale: if big { 2 } else { 1 }, next_act: 1, next_eff: 1, acts: BTreeMap::new() }
    }

    pub fn knobs(&mut self, faulty: bool) -> Knobs {
        let sched = match self.rng.below(10) {
            0..=2 => Sched::Uniform,
            3..=6 => Sched::Sticky(self.rng.pick(&[700, 900, 970])),
            _ => Sched::Pct { d: self.rng.range(1, 3) as u32, horizon: self.rng.pick(&[200, 1000, 3000]) },
        };
        Knobs {
            cpus: self.rng.pick(&[1, 2, 3, 4, 16]),
            sched,
            step_limit: 60_000 * self.scale,
            spurious_wake_pm: if faulty && self.rng.chance(50) { 30 } else { 0 },
            weak_cas_pm: if faulty && self.rng.chance(50) { 100 } else { 0 },
            spawn_fail_pm: 0,
        }
    }

    pub fn canonical_builder(&mut self, name: &str, cap: usize, policy: Policy, reds: &[u32], mws: &[u32]) -> Vec<BCall> {
        let mut b = vec![];
        if name != "store" || self.rng.chance(50) {
            b.push(BCall::WithName(name.to_string()));
        }
        if cap != 16 || self.rng.chance(50) {
            b.push(BCall::WithCapacity(cap));
        }
        if policy != Policy::Block || self.rng.chance(50) {
            b.push(BCall::WithPolicy(policy));
        }
        if reds.is_empty() {
            b.push(BCall::WithoutReducer);
        } else if self.rng.chance(50) {
            b.push(BCall::WithReducers(reds.to_vec()));
        } else {
            b.push(BCall::WithReducer(reds[0]));
            for t in &reds[1..] {
                b.push(BCall::AddReducer(*t));
            }
        }
        if !mws.is_empty() {
            if self.rng.chance(50) {
                b.push(BCall::WithMiddlewares(mws.to_vec()));
            } else {
                b.push(BCall::WithMiddleware(mws[0]));
                for t in &mws[1..] {
                    b.push(BCall::AddMiddleware(*t));
                }
            }
        }
        // option order is irrelevant by C17; shuffle
        for i in (1..b.len()).rev() {
            let j = self.rng.below(i as u64 + 1) as usize;
            // keep add_* after the with_* of the same option: only swap different option kinds
            let kind = |c: &BCall| match c {
                BCall::WithName(_) => 0,
                BCall::WithCapacity(_) => 1,
                BCall::WithPolicy(_) => 2,
                BCall::WithReducer(_) | BCall::WithReducers(_) | BCall::AddReducer(_) | BCall::WithoutReducer => 3,
                _ => 4,
            };
            if kind(&b[i]) != kind(&b[j]) && (i as isize - j as isize).abs() == 1 {
                b.swap(i, j);
            }
        }
        // a capacity set after without_reducer() trips finding F5; keep canonical stores clear of it
        if let Some(w) = b.iter().position(|c| *c == BCall::WithoutReducer) {
            if let Some(c) = b.iter().position(|c| matches!(c, BCall::WithCapacity(_))) {
                if c > w {
                    b.swap(c, w);
                }
            }
        }
        b
    }

    pub fn new_act(&mut self) -> ActId {
        let a = self.next_act;
        self.next_act += 1;
        a
    }

    pub fn new_eff(&mut self) -> EffId {
        let e = self.next_eff;
        self.next_eff += 1;
        e
    }

    /// a plain action: Dispatch/Keep mode, selector value, optional quick effect
    pub fn plain_act(&mut self, reds: &[u32], eff_pct: u64) -> ActId {
        let a = self.new_act();
        let mut sc = ActScript { sel: self.rng.below(3) as u8, ..Default::default() };
        let mode = self.rng.below(10);
        for &t in reds {
            let keep = match mode {
                0..=5 => false,
                6..=7 => true,
                _ => self.rng.chance(50),
            };
            let eff = if self.rng.chance(eff_pct) {
                let id = self.new_eff();
                Some(EffSpec {
                    id,
                    kind: if self.rng.chance(50) { EffKind::Task } else { EffKind::Function },
                    panic: false,
                    gate: None,
                    sleep_ms: 0,
                })
            } else {
                None
            };
            if keep || eff.is_some() {
                sc.red.insert(t, RedScript { keep, eff, gate: None, sleep_ms: 0 });
            }
        }
        self.acts.insert(a, sc);
        a
    }

    pub fn via(&mut self) -> Via {
        self.rng.pick(&[Via::Impl, Via::Trait, Via::Disp])
    }

    pub fn finish(self, family: &str, stores: Vec<StoreCfg>, subs: Vec<SubCfg>, regs: usize, iters: usize, gates: usize, threads: Vec<Vec<Op>>, knobs: Knobs, faulty: bool) -> Program {
        Program { family: family.to_string(), stores, subs, regs, iters, gates, threads, acts: self.acts, knobs, faulty }
    }
}

fn direct_sub(read: bool) -> SubCfg {
    SubCfg { kind: SubKind::Direct, read_state: read, gate: None, sleep_ms: 0, shared: false, ..Default::default() }
}

/// family core: producers, reducer chain, direct subscribers, readers, late registration
pub fn core(seed: u64) -> Program {
    let mut g = Gen::new(seed);
    let knobs = g.knobs(false);
    let nred = g.rng.range(1, 2 + g.scale) as u32;
    let nmw = if g.rng.chance(40) { g.rng.range(1, 1 + g.scale) as u32 } else { 0 };
    let reds: Vec<u32> = (0..nred).collect();
    let mws: Vec<u32> = (100..100 + nmw).collect();
    let cap = g.rng.pick(&CAPS);
    let name = if g.rng.chance(50) { "store".to_string() } else { format!("s{}", g.rng.below(3)) };
    // mostly the blocking policy (what C01-C03 quantify over); sometimes a drop policy, under which
    // the same oracles hold for the surviving actions
    let policy = match g.rng.below(20) {
        0 => Policy::DropOldest,
        1 => Policy::DropLatest,
        _ => Policy::Block,
    };
    let mut builder = g.canonical_builder(&name, cap, policy, &reds, &mws);
    // the plain constructors instead of the builder, where they can express the configuration
    let mut ctor = 0;
    if nred == 1 && nmw == 0 && cap == 16 && policy == Policy::Block && g.rng.chance(50) {
        ctor = if name == "store" { 1 } else { 2 };
        builder = vec![BCall::WithName(name.clone()), BCall::WithReducer(0)];
    }
    let stores = vec![StoreCfg { builder, droppable: false, stepper: None, ctor }];
    let nsub = g.rng.below(4) as usize;
    let mut subs = vec![];
    let mut main = vec![Op::Build { store: 0 }];
    let mut regs = 0;
    for k in 0..nsub {
        subs.push(direct_sub(g.rng.chance(30)));
        main.push(Op::AddSub { store: 0, sub: k, reg: regs });
        regs += 1;
    }
    let nprod = g.rng.range(1, 2 + 2 * g.scale) as usize;
    let mut budget = 16usize * g.scale as usize;
    let mut threads: Vec<Vec<Op>> = vec![vec![]];
    let mut all_reds = reds.clone();
    let late_red = g.rng.chance(20);
    if late_red {
        all_reds.push(50);
    }
    for _ in 0..nprod {
        let n = g.rng.range(1, 6 * g.scale).min(budget as u64) as usize;
        budget -= n;
        let mut ops = vec![];
        for _ in 0..n {
            let a = g.plain_act(&all_reds, 15);
            // middleware reads
            if nmw > 0 && g.rng.chance(30) {
                let sc = g.acts.get_mut(&a).unwrap();
                let mut m = MwScript::default();
                m.read = [true, true, true];
                sc.mw.insert(100, m);
            }
            let via = g.via();
            ops.push(Op::Dispatch { store: 0, act: a, via });
        }
        threads.push(ops);
        if budget == 0 {
            break;
        }
    }
    // late registration from a producer thread
    if late_red {
        let t = g.rng.range(1, threads.len() as u64 - 1) as usize;
        let pos = g.rng.below(threads[t].len() as u64 + 1) as usize;
        threads[t].insert(pos, Op::AddReducer { store: 0, tag: 50 });
    }
    if g.rng.chance(20) {
        let t = g.rng.range(1, threads.len() as u64 - 1) as usize;
        let pos = g.rng.below(threads[t].len() as u64 + 1) as usize;
        subs.push(direct_sub(false));
        threads[t].insert(pos, Op::AddSub { store: 0, sub: subs.len() - 1, reg: regs });
        regs += 1;
    }
    if g.rng.chance(15) {
        let t = g.rng.range(1, threads.len() as u64 - 1) as usize;
        let pos = g.rng.below(threads[t].len() as u64 + 1) as usize;
        threads[t].insert(pos, Op::AddMiddleware { store: 0, tag: 150 });
    }
    // readers
    let nread = g.rng.below(4) as usize;
    for _ in 0..nread {
        let k = g.rng.range(2, 8);
        let mut ops = vec![];
        for _ in 0..k {
            ops.push(if g.rng.chance(80) { Op::GetState { store: 0 } } else { Op::GetMetrics { store: 0 } });
        }
        threads.push(ops);
    }
    for t in 1..threads.len() {
        main.push(Op::Start { thread: t });
    }
    if g.rng.chance(30) {
        main.push(Op::GetState { store: 0 });
    }
    for t in 1..threads.len() {
        main.push(Op::Join { thread: t });
    }
    main.push(Op::Stop { store: 0 });
    main.push(Op::GetState { store: 0 });
    main.push(Op::GetMetrics { store: 0 });
    for r in 0..regs {
        main.push(Op::Unsub { reg: r });
    }
    threads[0] = main;
    g.finish("core", stores, subs, regs, 0, 0, threads, knobs, false)
}

pub fn generate(family: &str, seed: u64) -> Program {
    match family {
        "core" => core(seed),
        _ => crate::gen2::generate(family, seed),
    }
}
