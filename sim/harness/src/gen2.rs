//! Generators for the families stop and bp.
use crate::gen::*;
use crate::model::*;

pub fn generate(family: &str, seed: u64) -> Program {
    match family {
        "stop" => stop(seed),
        "bp" => bp(seed),
        _ => crate::gen3::generate(family, seed),
    }
}

fn sub_direct() -> SubCfg {
    SubCfg { kind: SubKind::Direct, read_state: false, gate: None, sleep_ms: 0, shared: false, ..Default::default() }
}

/// family stop: producers, thunks and readers racing stop() / close();stop() / drop(DroppableStore)
pub fn stop(seed: u64) -> Program {
    let mut g = Gen::new(seed);
    let knobs = g.knobs(false);
    let policy = match g.rng.below(10) {
        0..=6 => Policy::Block,
        7 => Policy::DropOldest,
        _ => Policy::DropLatest,
    };
    let nred = g.rng.range(1, 2) as u32;
    let reds: Vec<u32> = (0..nred).collect();
    let mws: Vec<u32> = if g.rng.chance(25) { vec![100] } else { vec![] };
    let cap = g.rng.pick(&CAPS);
    let name = if g.rng.chance(50) { "store".to_string() } else { "st".to_string() };
    let builder = g.canonical_builder(&name, cap, policy, &reds, &mws);
    let droppable = g.rng.chance(45);
    let stores = vec![StoreCfg { builder, droppable, stepper: None, ctor: 0 }];
    let mut subs = vec![];
    let mut main = vec![Op::Build { store: 0 }];
    let mut regs = 0;
    for _ in 0..g.rng.below(3) {
        subs.push(sub_direct());
        main.push(Op::AddSub { store: 0, sub: subs.len() - 1, reg: regs });
        regs += 1;
    }
    if g.rng.chance(35) {
        subs.push(SubCfg {
            kind: SubKind::Channeled { cap: g.rng.pick(&[1, 2, 4, 16]), policy: Policy::Block },
            read_state: false,
            gate: None,
            sleep_ms: 0,
            shared: false,
            ..Default::default()
        });
        main.push(Op::AddSub { store: 0, sub: subs.len() - 1, reg: regs });
        regs += 1;
    }
    let stall = g.rng.chance(8);
    let mut threads: Vec<Vec<Op>> = vec![vec![]];
    let nprod = g.rng.range(1, 2 + g.scale) as usize;
    for _ in 0..nprod {
        let n = g.rng.range(1, 5 * g.scale) as usize;
        let mut ops = vec![];
        for _ in 0..n {
            if g.rng.chance(12) {
                // a thunk that dispatches follow-ups through the dispatcher it is handed
                let k = g.rng.range(1, 2);
                let fups: Vec<ActId> = (0..k).map(|_| g.plain_act(&reds, 0)).collect();
                let id = g.new_eff();
                ops.push(Op::Thunk { store: 0, eff: EffSpec { id, kind: EffKind::Thunk(fups), panic: false, gate: None, sleep_ms: 0 } });
            } else {
                let a = g.plain_act(&reds, 10);
                // sometimes the reducer answers with a thunk (which dispatches follow-ups) or a follow-up action
                if g.rng.chance(8) {
                    let id = g.new_eff();
                    let f = g.plain_act(&reds, 0);
                    let kind = if g.rng.chance(70) { EffKind::Thunk(vec![f]) } else { EffKind::Action(f) };
                    g.acts.get_mut(&a).unwrap().red.entry(0).or_default().eff = Some(EffSpec { id, kind, panic: false, gate: None, sleep_ms: 0 });
                }
                if stall && g.rng.chance(30) {
                    let ms = g.rng.pick(&[1u32, 100, 2900, 3100, 10_000]);
                    g.acts.get_mut(&a).unwrap().red.entry(0).or_default().sleep_ms = ms;
                }
                let via = g.via();
                ops.push(Op::Dispatch { store: 0, act: a, via });
            }
        }
        threads.push(ops);
    }
    if g.rng.chance(30) {
        threads.push((0..g.rng.range(1, 3)).map(|_| Op::GetState { store: 0 }).collect());
    }
    // the stopper: a thread of its own or the main thread, at a random point
    let shutdown_op = |g: &mut Gen| if droppable && g.rng.chance(80) { Op::DropStore { store: 0 } } else { Op::Stop { store: 0 } };
    let mut stopper = vec![];
    if g.rng.chance(25) {
        stopper.push(Op::Close { store: 0 });
    }
    stopper.push(shutdown_op(&mut g));
    // after the stop: everything must be rejected / immediate
    let after = g.rng.range(1, 3);
    for _ in 0..after {
        match g.rng.below(4) {
            0 => stopper.push(Op::Stop { store: 0 }),
            1 => stopper.push(Op::GetState { store: 0 }),
            _ => {
                let a = g.plain_act(&reds, 0);
                let via = g.via();
                stopper.push(Op::Dispatch { store: 0, act: a, via });
            }
        }
    }
    let stopper_is_thread = g.rng.chance(70);
    let racing_second = g.rng.chance(8);
    if stopper_is_thread {
        threads.push(stopper.clone());
    }
    if racing_second {
        threads.push(vec![Op::Stop { store: 0 }]);
    }
    for t in 1..threads.len() {
        main.push(Op::Start { thread: t });
    }
    if !stopper_is_thread {
        main.extend(stopper);
    }
    for t in 1..threads.len() {
        main.push(Op::Join { thread: t });
    }
    main.push(Op::Stop { store: 0 });
    main.push(Op::GetState { store: 0 });
    main.push(Op::GetMetrics { store: 0 });
    let a = g.plain_act(&reds, 0);
    main.push(Op::Dispatch { store: 0, act: a, via: Via::Disp });
    for r in 0..regs {
        main.push(Op::Unsub { reg: r });
    }
    threads[0] = main;
    g.finish("stop", stores, subs, regs, 0, 0, threads, knobs, false)
}

/// family bp: backpressure scenarios with a stepper reducer and settle(), plus free-running ones
pub fn bp(seed: u64) -> Program {
    let mut g = Gen::new(seed);
    let mut knobs = g.knobs(false);
    let variant = g.rng.below(10);
    let policy = if variant >= 3 && variant <= 5 {
        Policy::Block
    } else {
        g.rng.pick(&[Policy::Block, Policy::DropOldest, Policy::DropLatest, Policy::DropOldest, Policy::DropLatest])
    };
    let cap = g.rng.pick(&[1usize, 1, 2, 2, 3, 5, 16]);
    let reds = vec![0u32];
    let name = "bp".to_string();
    let builder = g.canonical_builder(&name, cap, policy, &reds, &[]);
    let mut subs = vec![];
    let mut main = vec![Op::Build { store: 0 }];
    let mut regs = 0;
    if g.rng.chance(50) {
        subs.push(sub_direct());
        main.push(Op::AddSub { store: 0, sub: 0, reg: 0 });
        regs = 1;
    }
    let mut threads: Vec<Vec<Op>> = vec![vec![]];
    let mut stores = vec![StoreCfg { builder, droppable: false, stepper: Some((0, 0)), ctor: 0 }];
    let mut gates = 1;
    let simple = |g: &mut Gen| {
        let a = g.new_act();
        g.acts.insert(a, ActScript { sel: g.rng.below(3) as u8, ..Default::default() });
        a
    };
    match variant {
        // (A) deterministic controller script under a drop policy (or Block without overfilling)
        0..=2 | 6 | 7 => {
            let mut held = false;
            let mut qlen = 0usize;
            let a0 = simple(&mut g);
            let via = g.via();
            main.push(Op::Dispatch { store: 0, act: a0, via });
            main.push(Op::Settle);
            held = held || true;
            let phases = g.rng.range(1, 4 * g.scale);
            for _ in 0..phases {
                let n = if policy == Policy::Block { g.rng.range(0, (cap - qlen) as u64) as usize } else { g.rng.range(1, (3 * cap).min(12) as u64) as usize };
                for _ in 0..n {
                    let a = simple(&mut g);
                    let via = g.via();
                    main.push(Op::Dispatch { store: 0, act: a, via });
                    if qlen < cap {
                        qlen += 1;
                    }
                }
                if g.rng.chance(40) {
                    main.push(Op::Settle);
                    main.push(Op::Snap { tag: 0 });
                }
                if qlen > 0 && g.rng.chance(70) {
                    let k = g.rng.range(1, qlen as u64) as usize;
                    main.push(Op::Open { gate: 0, n: k as u32 });
                    main.push(Op::Settle);
                    qlen -= k;
                }
            }
            let _ = held;
            main.push(Op::Open { gate: 0, n: 1_000_000 });
            main.push(Op::Settle);
            // a subscriber that arrives after the bursts (and whatever they evicted) is told about
            // everything dispatched from then on
            if g.rng.chance(40) {
                subs.push(sub_direct());
                main.push(Op::AddSub { store: 0, sub: subs.len() - 1, reg: regs });
                regs += 1;
                for _ in 0..g.rng.range(1, 3) {
                    let a = simple(&mut g);
                    let via = g.via();
                    main.push(Op::Dispatch { store: 0, act: a, via });
                    main.push(Op::Settle);
                }
            }
        }
        // (B) BlockOnFull with producer threads, one step at a time
        3..=5 => {
            let nprod = g.rng.range(1, 3) as usize;
            let mut total = 0;
            for _ in 0..nprod {
                let n = g.rng.range(1, (2 * cap + 2).min(8) as u64) as usize;
                total += n;
                let mut ops = vec![];
                for _ in 0..n {
                    let a = simple(&mut g);
                    let via = g.via();
                    ops.push(Op::Dispatch { store: 0, act: a, via });
                }
                threads.push(ops);
            }
            for t in 1..threads.len() {
                main.push(Op::Start { thread: t });
            }
            main.push(Op::Settle);
            main.push(Op::Snap { tag: 0 });
            let steps = g.rng.range(1, total as u64 + 1);
            for k in 0..steps {
                let n = if g.rng.chance(80) { 1 } else { 2 };
                main.push(Op::Open { gate: 0, n });
                main.push(Op::Settle);
                main.push(Op::Snap { tag: k as u32 + 1 });
            }
            main.push(Op::Open { gate: 0, n: 1_000_000 });
            for t in 1..threads.len() {
                main.push(Op::Join { thread: t });
            }
        }
        // (C) free-running: producers against a reducer that is sometimes slow
        _ => {
            stores[0].stepper = None;
            gates = 0;
            knobs.step_limit = 80_000;
            let nprod = g.rng.range(1, 3) as usize;
            for _ in 0..nprod {
                let n = g.rng.range(1, 6 * g.scale) as usize;
                let mut ops = vec![];
                for _ in 0..n {
                    let a = simple(&mut g);
                    if g.rng.chance(15) {
                        g.acts.get_mut(&a).unwrap().red.insert(0, RedScript { keep: false, eff: None, gate: None, sleep_ms: g.rng.pick(&[1, 50]) });
                    }
                    let via = g.via();
                    ops.push(Op::Dispatch { store: 0, act: a, via });
                }
                threads.push(ops);
            }
            for t in 1..threads.len() {
                main.push(Op::Start { thread: t });
            }
            if g.rng.chance(30) {
                main.push(Op::GetMetrics { store: 0 });
            }
            for t in 1..threads.len() {
                main.push(Op::Join { thread: t });
            }
        }
    }
    main.push(Op::Stop { store: 0 });
    main.push(Op::GetMetrics { store: 0 });
    main.push(Op::GetState { store: 0 });
    for r in 0..regs {
        main.push(Op::Unsub { reg: r });
    }
    threads[0] = main;
    g.finish("bp", stores, subs, regs, 0, gates, threads, knobs, false)
}
