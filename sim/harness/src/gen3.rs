//! Generators for the families mw and eff.
use crate::gen::*;
use crate::model::*;

pub fn generate(family: &str, seed: u64) -> Program {
    match family {
        "mw" => mw(seed),
        "eff" => eff(seed),
        _ => crate::gen4::generate(family, seed),
    }
}

fn sub_direct(read: bool) -> SubCfg {
    SubCfg { kind: SubKind::Direct, read_state: read, gate: None, sleep_ms: 0, shared: false, ..Default::default() }
}

/// family mw: middleware verdict matrix
pub fn mw(seed: u64) -> Program {
    let mut g = Gen::new(seed);
    let faulty = g.rng.chance(50);
    let knobs = g.knobs(faulty);
    let nred = g.rng.range(1, 2) as u32;
    let nmw = g.rng.range(1, 3) as u32;
    let reds: Vec<u32> = (0..nred).collect();
    let mws: Vec<u32> = (100..100 + nmw).collect();
    // some programs let a middleware dispatch synchronously from before_reduce: the queue is then
    // large enough that the reducer thread can never block on itself
    let sync_dispatch = g.rng.chance(25);
    // ... or the store has a drop policy (then nothing ever waits for room, however small the queue)
    let sync_policy = if sync_dispatch && g.rng.chance(40) { g.rng.pick(&[Policy::DropOldest, Policy::DropLatest]) } else { Policy::Block };
    let cap = if sync_policy != Policy::Block { g.rng.pick(&[1usize, 2]) } else if sync_dispatch { 16 } else { g.rng.pick(&CAPS) };
    let builder = g.canonical_builder("mw", cap, sync_policy, &reds, &mws);
    let stores = vec![StoreCfg { builder, droppable: false, stepper: None, ctor: 0 }];
    let mut subs = vec![];
    let mut main = vec![Op::Build { store: 0 }];
    let mut regs = 0;
    for _ in 0..g.rng.range(1, 2) {
        subs.push(sub_direct(g.rng.chance(20)));
        main.push(Op::AddSub { store: 0, sub: subs.len() - 1, reg: regs });
        regs += 1;
    }
    if g.rng.chance(30) {
        subs.push(SubCfg { kind: SubKind::Selector, read_state: false, gate: None, sleep_ms: 0, shared: false, ..Default::default() });
        main.push(Op::AddSub { store: 0, sub: subs.len() - 1, reg: regs });
        regs += 1;
    }
    let nact = g.rng.range(1, 4 * g.scale) as usize;
    let nprod = g.rng.range(1, 2) as usize;
    let mut threads: Vec<Vec<Op>> = vec![vec![]];
    for _ in 0..nprod {
        threads.push(vec![]);
    }
    for _ in 0..nact {
        let a = g.plain_act(&reds, 35);
        for &m in &mws {
            let mut sc = MwScript::default();
            for h in 0..3 {
                sc.verdict[h] = match g.rng.below(20) {
                    0..=10 => Verdict::Continue,
                    11..=13 => Verdict::Done,
                    14..=16 => Verdict::Break,
                    _ => {
                        if faulty {
                            Verdict::Err
                        } else {
                            Verdict::Continue
                        }
                    }
                };
                sc.read[h] = g.rng.chance(10);
            }
            if g.rng.chance(30) {
                let k = g.rng.range(1, 2);
                for _ in 0..k {
                    sc.remove.push(g.rng.below(2) as usize);
                }
            }
            if g.rng.chance(6) {
                let id = g.new_eff();
                sc.thunk = Some(EffSpec { id, kind: EffKind::Thunk(vec![]), panic: false, gate: None, sleep_ms: 0 });
            }
            if sync_dispatch && m == mws[0] && g.rng.chance(40) {
                sc.dispatch = Some(g.plain_act(&reds, 0));
            }
            g.acts.get_mut(&a).unwrap().mw.insert(m, sc);
        }
        let t = g.rng.range(1, nprod as u64) as usize;
        let via = g.via();
        threads[t].push(Op::Dispatch { store: 0, act: a, via });
    }
    if g.rng.chance(10) {
        let t = g.rng.range(1, nprod as u64) as usize;
        let pos = g.rng.below(threads[t].len() as u64 + 1) as usize;
        threads[t].insert(pos, Op::AddMiddleware { store: 0, tag: 150 });
    }
    for t in 1..threads.len() {
        main.push(Op::Start { thread: t });
    }
    for t in 1..threads.len() {
        main.push(Op::Join { thread: t });
    }
    if g.rng.chance(30) {
        main.push(Op::Settle);
        main.push(Op::GetMetrics { store: 0 });
    }
    main.push(Op::Stop { store: 0 });
    main.push(Op::GetState { store: 0 });
    main.push(Op::GetMetrics { store: 0 });
    for r in 0..regs {
        main.push(Op::Unsub { reg: r });
    }
    threads[0] = main;
    g.finish("mw", stores, subs, regs, 0, 0, threads, knobs, faulty)
}

/// family eff: effects of all four kinds, follow-ups, panicking / parked / slow effects
pub fn eff(seed: u64) -> Program {
    let mut g = Gen::new(seed);
    let faulty = g.rng.chance(50);
    let mut knobs = g.knobs(faulty);
    knobs.cpus = g.rng.pick(&[1, 1, 2, 2, 3, 4, 16]);
    let policy = if g.rng.chance(85) { Policy::Block } else { g.rng.pick(&[Policy::DropOldest, Policy::DropLatest]) };
    let nred = g.rng.range(1, 3) as u32;
    let reds: Vec<u32> = (0..nred).collect();
    let mws: Vec<u32> = if g.rng.chance(30) { vec![100] } else { vec![] };
    let cap = g.rng.pick(&[2usize, 3, 5, 16, 16]);
    let builder = g.canonical_builder("eff", cap, policy, &reds, &mws);
    let stores = vec![StoreCfg { builder, droppable: false, stepper: None, ctor: 0 }];
    let mut subs = vec![];
    let mut main = vec![Op::Build { store: 0 }];
    let mut regs = 0;
    if g.rng.chance(70) {
        subs.push(sub_direct(false));
        main.push(Op::AddSub { store: 0, sub: 0, reg: 0 });
        regs = 1;
    }
    let mut gates = 0usize;
    let use_gate = g.rng.chance(25);
    let nprod = g.rng.range(1, 2) as usize;
    let mut threads: Vec<Vec<Op>> = vec![vec![]];
    let mut depth_budget = 6;
    for _ in 0..nprod {
        let n = g.rng.range(1, 4 * g.scale) as usize;
        let mut ops = vec![];
        for _ in 0..n {
            if g.rng.chance(15) {
                // client-submitted thunk / task
                let id = g.new_eff();
                let thunk = g.rng.chance(60);
                let kind = if thunk {
                    let k = g.rng.below(3);
                    EffKind::Thunk((0..k).map(|_| g.plain_act(&reds, 0)).collect())
                } else {
                    EffKind::Task
                };
                let spec = EffSpec { id, kind, panic: faulty && g.rng.chance(15), gate: None, sleep_ms: 0 };
                ops.push(if thunk { Op::Thunk { store: 0, eff: spec } } else { Op::Task { store: 0, eff: spec } });
                continue;
            }
            let a = g.new_act();
            let mut sc = ActScript { sel: g.rng.below(3) as u8, ..Default::default() };
            for &t in &reds {
                let mut rs = RedScript { keep: g.rng.chance(25), ..Default::default() };
                if g.rng.chance(55) {
                    let id = g.new_eff();
                    let kind = match g.rng.below(10) {
                        0..=2 => {
                            // follow-up action, itself plain (or with one more effect while budget lasts)
                            depth_budget -= 1;
                            let b = g.plain_act(&reds, if depth_budget > 0 { 25 } else { 0 });
                            EffKind::Action(b)
                        }
                        3..=5 => EffKind::Task,
                        6..=7 => {
                            let k = g.rng.below(3);
                            EffKind::Thunk((0..k).map(|_| g.plain_act(&reds, 0)).collect())
                        }
                        _ => EffKind::Function,
                    };
                    let is_action = matches!(kind, EffKind::Action(_));
                    let gate = if use_gate && !is_action && g.rng.chance(30) {
                        gates = 1;
                        Some(0)
                    } else {
                        None
                    };
                    rs.eff = Some(EffSpec {
                        id,
                        kind,
                        panic: faulty && !is_action && g.rng.chance(20),
                        gate,
                        sleep_ms: if g.rng.chance(15) { g.rng.pick(&[1u32, 100]) } else { 0 },
                    });
                }
                sc.red.insert(t, rs);
            }
            for &m in &mws {
                let mut ms = MwScript::default();
                if g.rng.chance(40) {
                    ms.remove.push(g.rng.below(2) as usize);
                }
                sc.mw.insert(m, ms);
            }
            g.acts.insert(a, sc);
            let via = g.via();
            ops.push(Op::Dispatch { store: 0, act: a, via });
        }
        threads.push(ops);
    }
    for t in 1..threads.len() {
        main.push(Op::Start { thread: t });
    }
    // stop racing the producers (any backlog at the time of stop()) or after they are done
    let early_stop = g.rng.chance(30);
    if !early_stop {
        for t in 1..threads.len() {
            main.push(Op::Join { thread: t });
        }
        if g.rng.chance(50) {
            main.push(Op::Settle);
            main.push(Op::Snap { tag: 0 });
        }
    }
    let leave_parked = gates > 0 && g.rng.chance(20);
    if gates > 0 && !leave_parked {
        main.push(Op::Open { gate: 0, n: 1_000_000 });
        if g.rng.chance(50) {
            main.push(Op::Settle);
        }
    }
    main.push(Op::Stop { store: 0 });
    if early_stop {
        for t in 1..threads.len() {
            main.push(Op::Join { thread: t });
        }
    }
    main.push(Op::GetState { store: 0 });
    main.push(Op::GetMetrics { store: 0 });
    for r in 0..regs {
        main.push(Op::Unsub { reg: r });
    }
    threads[0] = main;
    g.finish("eff", stores, subs, regs, 0, gates, threads, knobs, faulty)
}
