//! Generators for the families mw, eff, sub, api, build, two.
use crate::model::*;

pub fn generate(family: &str, _seed: u64) -> Program {
    eprintln!("simcheck: unknown family {family}");
    std::process::exit(2);
}
