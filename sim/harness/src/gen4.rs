//! Generators for the families sub, api, build, two.
use crate::gen::*;
use crate::model::*;
use std::collections::BTreeMap;

pub fn generate(family: &str, seed: u64) -> Program {
    match family {
        "sub" => sub(seed),
        "api" => api(seed),
        "build" => build(seed),
        "two" => two(seed),
        "long" | "fleet" => crate::gen5::generate(family, seed),
        _ => {
            eprintln!("simcheck: unknown family {family}");
            std::process::exit(2);
        }
    }
}

fn direct(read: bool) -> SubCfg {
    SubCfg { kind: SubKind::Direct, read_state: read, gate: None, sleep_ms: 0, shared: false, ..Default::default() }
}

fn insert_at_random(g: &mut Gen, ops: &mut Vec<Op>, op: Op) {
    let pos = g.rng.below(ops.len() as u64 + 1) as usize;
    ops.insert(pos, op);
}

/// family sub: subscribers of every kind and iterators come and go while producers run
pub fn sub(seed: u64) -> Program {
    let mut g = Gen::new(seed);
    let faulty = g.rng.chance(30);
    let mut knobs = g.knobs(faulty);
    if faulty {
        knobs.spawn_fail_pm = 150;
    }
    let reds = vec![0u32];
    let mws: Vec<u32> = if g.rng.chance(20) { vec![100] } else { vec![] };
    let cap = g.rng.pick(&CAPS);
    let name = if g.rng.chance(50) { "store".to_string() } else { "sb".to_string() };
    let builder = g.canonical_builder(&name, cap, Policy::Block, &reds, &mws);
    // one program in four ends by dropping a DroppableStore instead of calling stop() (round 11:
    // C15 with gated, lossy channeled subscribers); decided by the seed without a draw, so every
    // other seed generates the program it generated before
    let droppable = seed % 4 == 1;
    let stores = vec![StoreCfg { builder, droppable, stepper: None, ctor: 0 }];
    // sub 0: the reference direct subscriber, registered for the whole run
    let mut subs = vec![direct(false)];
    let mut main = vec![Op::Build { store: 0 }, Op::AddSub { store: 0, sub: 0, reg: 0 }];
    let mut regs = 1;
    let mut gates = 0;
    let mut threads: Vec<Vec<Op>> = vec![vec![]];
    // producers
    let nprod = g.rng.range(1, 1 + g.scale) as usize;
    for _ in 0..nprod {
        let n = g.rng.range(2, 6 * g.scale) as usize;
        let mut ops = vec![];
        for _ in 0..n {
            let a = g.plain_act(&reds, 0);
            if !mws.is_empty() && g.rng.chance(15) {
                let mut m = MwScript::default();
                m.verdict[2] = Verdict::Done;
                g.acts.get_mut(&a).unwrap().mw.insert(100, m);
            }
            let via = g.via();
            ops.push(Op::Dispatch { store: 0, act: a, via });
        }
        threads.push(ops);
    }
    let nprod_threads = threads.len();
    // other subscribers
    let nsub = g.rng.range(1, 2 + g.scale) as usize;
    let mut late_ops: Vec<(usize, Op)> = vec![];
    let mut stalled_lossy = false;
    for _ in 0..nsub {
        let kind = match g.rng.below(10) {
            0..=2 => SubKind::Direct,
            3..=4 => SubKind::Selector,
            _ => SubKind::Channeled { cap: g.rng.pick(&[1usize, 2, 4]), policy: g.rng.pick(&[Policy::Block, Policy::Block, Policy::DropOldest, Policy::DropLatest]) },
        };
        let mut cfg = SubCfg { kind: kind.clone(), read_state: false, gate: None, sleep_ms: 0, shared: false, ..Default::default() };
        if let SubKind::Channeled { policy, .. } = kind {
            match g.rng.below(10) {
                0..=1 => {
                    cfg.gate = Some(0);
                    gates = 1;
                    if policy != Policy::Block {
                        stalled_lossy = true;
                    }
                }
                2 => cfg.sleep_ms = g.rng.pick(&[1, 100, 700]),
                _ => {}
            }
        }
        subs.push(cfg);
        let sub = subs.len() - 1;
        let reg = regs;
        regs += 1;
        let add = Op::AddSub { store: 0, sub, reg };
        // registered by main at the start, or by a client mid-run
        let who = if g.rng.chance(60) { 0 } else { g.rng.range(1, nprod_threads as u64 - 1) as usize };
        if who == 0 {
            main.push(add);
        } else {
            late_ops.push((who, add));
        }
        // unsubscribed at a random point (once or twice), or never
        match g.rng.below(10) {
            0..=3 => {}
            4..=7 => late_ops.push((g.rng.range(1, nprod_threads as u64 - 1) as usize, Op::Unsub { reg })),
            _ => {
                // unsubscribed again and again (every call after the first must be a no-op)
                let t = g.rng.range(1, nprod_threads as u64 - 1) as usize;
                for _ in 0..g.rng.range(2, 4) {
                    late_ops.push((t, Op::Unsub { reg }));
                }
            }
        }
    }
    // a second whole-run direct subscriber registered after the others: whatever happens to
    // earlier registrations must not affect it
    if g.rng.chance(60) {
        subs.push(direct(false));
        main.push(Op::AddSub { store: 0, sub: subs.len() - 1, reg: regs });
        regs += 1;
    }
    // sometimes the unsubscribing is done by a thread of its own that is only joined after stop():
    // an unsubscribe() still flushing a slow subscriber then overlaps the shutdown
    let mut straggler: Option<usize> = None;
    if g.rng.chance(30) {
        let mine: Vec<(usize, Op)> = late_ops.iter().filter(|(_, o)| matches!(o, Op::Unsub { .. })).cloned().collect();
        if !mine.is_empty() {
            late_ops.retain(|(_, o)| !matches!(o, Op::Unsub { .. }));
            threads.push(mine.into_iter().map(|(_, o)| o).collect());
            straggler = Some(threads.len() - 1);
        }
    }
    // place late ops; an Unsub must come after its AddSub when both are in the same thread;
    // across threads the race is the point (an Unsub that finds no handle is skipped)
    for (t, op) in late_ops {
        match op {
            Op::Unsub { reg } => {
                let after = threads[t].iter().position(|o| matches!(o, Op::AddSub { reg: r, .. } if *r == reg)).map(|p| p + 1).unwrap_or(0);
                let pos = after + g.rng.below((threads[t].len() - after) as u64 + 1) as usize;
                threads[t].insert(pos, op);
            }
            _ => insert_at_random(&mut g, &mut threads[t], op),
        }
    }
    // early cross-unsubscription with a slow victim: A (prompt, channeled) is told about the very
    // first action and unsubscribes B (channeled, 700 ms per notification) from inside its callback
    // while B is still busy with that same notification; everything else happens afterwards
    if g.rng.chance(8) {
        let trig = g.new_act();
        g.acts.insert(trig, ActScript { sel: g.rng.below(3) as u8, ..Default::default() });
        let (reg_a, reg_b) = (regs, regs + 1);
        regs += 2;
        subs.push(SubCfg { kind: SubKind::Channeled { cap: g.rng.pick(&[2usize, 4]), policy: Policy::Block }, unsub_other: Some((trig, reg_b)), ..Default::default() });
        main.push(Op::AddSub { store: 0, sub: subs.len() - 1, reg: reg_a });
        subs.push(SubCfg { kind: SubKind::Channeled { cap: 2, policy: Policy::Block }, sleep_ms: 700, ..Default::default() });
        main.push(Op::AddSub { store: 0, sub: subs.len() - 1, reg: reg_b });
        main.push(Op::Dispatch { store: 0, act: trig, via: Via::Impl });
        main.push(Op::Settle);
    }
    let mut settle_before_stop = false;
    // a channeled subscriber that, when told about some action, unsubscribes ANOTHER subscriber
    // from its own thread (never itself: joining one's own thread is outside the statement)
    let all_prompt = subs.iter().all(|c| c.gate.is_none() && c.sleep_ms == 0);
    if all_prompt && g.rng.chance(20) {
        let chans: Vec<usize> = (1..subs.len()).filter(|&i| matches!(subs[i].kind, SubKind::Channeled { .. }) && subs[i].gate.is_none()).collect();
        let acts: Vec<ActId> = g.acts.keys().cloned().collect();
        if let (Some(&a_sub), false) = (chans.first(), acts.is_empty()) {
            // registration index of a subscriber other than a_sub and other than the reference (reg 0)
            let victims: Vec<usize> = (1..regs).filter(|&r| {
                threads.iter().flatten().chain(main.iter()).any(|o| matches!(o, Op::AddSub { sub, reg, .. } if *reg == r && *sub != a_sub && *sub != 0))
            }).collect();
            if !victims.is_empty() {
                let v = victims[g.rng.below(victims.len() as u64) as usize];
                let trig = acts[g.rng.below(acts.len() as u64) as usize];
                subs[a_sub].unsub_other = Some((trig, v));
                // a callback that calls into the store must not meet an unsubscribe() or shutdown of
                // its own subscriber half-way (that would wait for the callback while the callback
                // waits for the subscriber list: excluded by C13's premise): nobody unsubscribes the
                // caller in mid-run, and the store is quiescent before it is stopped
                let a_regs: Vec<usize> = threads.iter().flatten().chain(main.iter()).filter_map(|o| match o { Op::AddSub { sub, reg, .. } if *sub == a_sub => Some(*reg), _ => None }).collect();
                for t in threads.iter_mut().skip(1) {
                    t.retain(|o| !matches!(o, Op::Unsub { reg } if a_regs.contains(reg)));
                }
                settle_before_stop = true;
            }
        }
    }
    // two direct subscribers registered one after the other by one client in mid-run (whatever
    // the list is going through at that moment, they are called in that order from then on)
    if g.rng.chance(25) {
        let t = g.rng.range(1, nprod_threads as u64 - 1) as usize;
        let pos = g.rng.below(threads[t].len() as u64 + 1) as usize;
        for k in 0..2 {
            subs.push(direct(false));
            threads[t].insert(pos + k, Op::AddSub { store: 0, sub: subs.len() - 1, reg: regs });
            regs += 1;
        }
    }
    // iterators with their own consumer threads
    let niter = if stalled_lossy || settle_before_stop { 0 } else { g.rng.below(3) as usize };
    let mut consumers = vec![];
    for it in 0..niter {
        let early_drop = g.rng.chance(4);
        let created_by_main = g.rng.chance(60);
        let mut ops = vec![];
        if created_by_main {
            main.push(Op::Iter { store: 0, it });
        } else {
            ops.push(Op::Iter { store: 0, it });
        }
        if early_drop {
            ops.push(Op::Next { it, n: g.rng.range(0, 2) as usize });
            ops.push(Op::DropIter { it });
        } else {
            // the consumer may use the rest of the (non-blocking) API between two next() calls
            if g.rng.chance(35) {
                for _ in 0..g.rng.range(1, 3) {
                    ops.push(Op::Next { it, n: 1 });
                    match g.rng.below(4) {
                        0 => ops.push(Op::GetState { store: 0 }),
                        3 => ops.push(Op::GetMetrics { store: 0 }),
                        1 => {
                            subs.push(direct(false));
                            ops.push(Op::AddSub { store: 0, sub: subs.len() - 1, reg: regs });
                            regs += 1;
                        }
                        _ => {
                            if regs > 1 {
                                ops.push(Op::Unsub { reg: g.rng.range(1, regs as u64 - 1) as usize });
                            }
                        }
                    }
                }
            }
            // a slow consumer: stop() may then give up after its timeout while items are pending
            if g.rng.chance(12) {
                ops.push(Op::Next { it, n: 1 });
                ops.push(Op::Sleep { ms: g.rng.pick(&[100u32, 3100, 5000]) });
            }
            // a consumer that quits (drops its iterator) as soon as somebody has asked the store to
            // stop, while the reducer may still be working through its backlog
            if g.rng.chance(15) {
                ops.push(Op::NextUntilShut { it, store: 0 });
                ops.push(Op::DropIter { it });
            } else {
                ops.push(Op::Drain { it });
                if g.rng.chance(50) {
                    ops.push(Op::DropIter { it });
                }
            }
        }
        threads.push(ops);
        consumers.push(threads.len() - 1);
    }
    for t in 1..threads.len() {
        main.push(Op::Start { thread: t });
    }
    // a parked subscriber is released before anybody is joined: clients may be inside an
    // unsubscribe() that flushes it, or blocked behind its full BlockOnFull queue
    if gates > 0 || g.rng.chance(20) {
        main.push(Op::Settle);
        main.push(Op::Snap { tag: 0 });
    }
    if gates > 0 {
        main.push(Op::Open { gate: 0, n: 1_000_000 });
    }
    for t in 1..nprod_threads {
        main.push(Op::Join { thread: t });
    }
    if straggler.is_some() && g.rng.chance(50) {
        main.push(Op::Sleep { ms: 50 });
    }
    if settle_before_stop {
        main.push(Op::Settle);
    }
    main.push(if droppable { Op::DropStore { store: 0 } } else { Op::Stop { store: 0 } });
    for t in consumers {
        main.push(Op::Join { thread: t });
    }
    if let Some(t) = straggler {
        main.push(Op::Join { thread: t });
    }
    main.push(Op::GetState { store: 0 });
    main.push(Op::GetMetrics { store: 0 });
    for r in 0..regs {
        main.push(Op::Unsub { reg: r });
    }
    threads[0] = main;
    g.finish("sub", stores, subs, regs, niter, gates, threads, knobs, faulty)
}

/// family api: small random programs over the whole public alphabet
pub fn api(seed: u64) -> Program {
    let mut g = Gen::new(seed);
    let faulty = g.rng.chance(50);
    let knobs = g.knobs(faulty);
    let policy = g.rng.pick(&[Policy::Block, Policy::Block, Policy::DropOldest, Policy::DropLatest]);
    let nred = g.rng.range(0, 2) as u32;
    let reds: Vec<u32> = (0..nred).collect();
    let mws: Vec<u32> = if g.rng.chance(30) { vec![100] } else { vec![] };
    let cap = g.rng.pick(&[1usize, 1, 2, 3, 16]);
    let builder = g.canonical_builder("api", cap, policy, &reds, &mws);
    let droppable = g.rng.chance(30);
    let stores = vec![StoreCfg { builder, droppable, stepper: None, ctor: 0 }];
    let mut subs: Vec<SubCfg> = vec![];
    let mut regs = 0usize;
    let mut iters = 0usize;
    let mut threads: Vec<Vec<Op>> = vec![vec![]];
    let nthreads = g.rng.range(2, 4) as usize;
    let mut extra_threads: Vec<Vec<Op>> = vec![];
    let mut next_tag = 50u32;
    for _ in 0..nthreads {
        let nops = g.rng.range(1, 5 * g.scale) as usize;
        let mut ops: Vec<Op> = vec![];
        let mut my_regs: Vec<usize> = vec![];
        for _ in 0..nops {
            match g.rng.below(20) {
                0..=6 => {
                    let a = g.plain_act(&reds, 10);
                    // sometimes the reducer answers with a follow-up action or a thunk that dispatches
                    if !reds.is_empty() && g.rng.chance(20) {
                        let id = g.new_eff();
                        let kind = if g.rng.chance(60) {
                            EffKind::Action(g.plain_act(&reds, 0))
                        } else {
                            EffKind::Thunk(vec![g.plain_act(&reds, 0)])
                        };
                        g.acts.get_mut(&a).unwrap().red.entry(reds[0]).or_default().eff = Some(EffSpec { id, kind, panic: false, gate: None, sleep_ms: 0 });
                    }
                    let via = g.via();
                    ops.push(Op::Dispatch { store: 0, act: a, via });
                }
                7 => ops.push(Op::GetState { store: 0 }),
                8 => ops.push(Op::GetMetrics { store: 0 }),
                9..=11 => {
                    let kind = match g.rng.below(3) {
                        0 => SubKind::Direct,
                        1 => SubKind::Selector,
                        _ => SubKind::Channeled { cap: g.rng.pick(&[1usize, 2, 16]), policy: g.rng.pick(&[Policy::Block, Policy::DropOldest, Policy::DropLatest]) },
                    };
                    subs.push(SubCfg { kind, read_state: g.rng.chance(20), gate: None, sleep_ms: 0, shared: false, ..Default::default() });
                    ops.push(Op::AddSub { store: 0, sub: subs.len() - 1, reg: regs });
                    my_regs.push(regs);
                    regs += 1;
                }
                12..=13 => {
                    if let Some(&r) = my_regs.last() {
                        ops.push(Op::Unsub { reg: r });
                    } else {
                        ops.push(Op::GetState { store: 0 });
                    }
                }
                14 => {
                    // an iterator consumed to None by its own thread
                    let it = iters;
                    iters += 1;
                    ops.push(Op::Iter { store: 0, it });
                    let mut cons = vec![];
                    if g.rng.chance(40) {
                        // non-blocking API calls between two next() calls of the consuming thread
                        cons.push(Op::Next { it, n: 1 });
                        subs.push(SubCfg { kind: SubKind::Direct, read_state: false, gate: None, sleep_ms: 0, shared: false, ..Default::default() });
                        cons.push(Op::AddSub { store: 0, sub: subs.len() - 1, reg: regs });
                        cons.push(Op::Next { it, n: 1 });
                        cons.push(Op::Unsub { reg: regs });
                        regs += 1;
                        if g.rng.chance(50) {
                            cons.push(Op::GetMetrics { store: 0 });
                        }
                    }
                    if g.rng.chance(20) {
                        cons.push(Op::NextUntilShut { it, store: 0 });
                        cons.push(Op::DropIter { it });
                    } else {
                        cons.push(Op::Drain { it });
                    }
                    extra_threads.push(cons);
                    ops.push(Op::Start { thread: 1000 + extra_threads.len() - 1 });
                }
                15 => {
                    // an iterator created and dropped again (finding F4 when items are pending)
                    if g.rng.chance(25) {
                        let it = iters;
                        iters += 1;
                        ops.push(Op::Iter { store: 0, it });
                        ops.push(Op::DropIter { it });
                    } else {
                        ops.push(Op::GetMetrics { store: 0 });
                    }
                }
                16 => {
                    next_tag += 1;
                    ops.push(Op::AddReducer { store: 0, tag: next_tag })
                }
                17 => {
                    let id = g.new_eff();
                    ops.push(Op::Task { store: 0, eff: EffSpec { id, kind: EffKind::Task, panic: faulty && g.rng.chance(30), gate: None, sleep_ms: 0 } });
                }
                18 => ops.push(if g.rng.chance(50) { Op::Close { store: 0 } } else { Op::Stop { store: 0 } }),
                _ => ops.push(if droppable { Op::DropStore { store: 0 } } else { Op::Stop { store: 0 } }),
            }
        }
        threads.push(ops);
    }
    // consumer threads get real indices
    let base = threads.len();
    for ops in threads.iter_mut() {
        for o in ops.iter_mut() {
            if let Op::Start { thread } = o {
                if *thread >= 1000 {
                    *thread = base + (*thread - 1000);
                }
            }
        }
    }
    let nclients = threads.len();
    threads.extend(extra_threads);
    let mut main = vec![Op::Build { store: 0 }];
    for t in 1..nclients {
        main.push(Op::Start { thread: t });
    }
    for t in 1..nclients {
        main.push(Op::Join { thread: t });
    }
    main.push(Op::Stop { store: 0 });
    for t in nclients..threads.len() {
        main.push(Op::Join { thread: t });
    }
    for r in 0..regs {
        main.push(Op::Unsub { reg: r });
    }
    main.push(Op::GetState { store: 0 });
    threads[0] = main;
    g.finish("api", stores, subs, regs, iters, 0, threads, knobs, faulty)
}

fn random_bcalls(g: &mut Gen) -> Vec<BCall> {
    let n = g.rng.range(0, 7) as usize;
    let mut v = vec![];
    let mut next_red = 0u32;
    let mut next_mw = 100u32;
    for _ in 0..n {
        v.push(match g.rng.below(14) {
            0 => BCall::WithName(g.rng.pick(&["a", "b", "store", ""]).to_string()),
            1 | 2 => {
                next_red += 1;
                BCall::WithReducer(next_red)
            }
            3 => {
                let k = g.rng.below(3);
                BCall::WithReducers((0..k).map(|_| {
                    next_red += 1;
                    next_red
                }).collect())
            }
            4 | 5 => {
                next_red += 1;
                BCall::AddReducer(next_red)
            }
            6 => BCall::WithoutReducer,
            7 | 8 => BCall::WithCapacity(g.rng.pick(&[0usize, 1, 2, 3, 16])),
            9 | 10 => BCall::WithPolicy(g.rng.pick(&[Policy::Block, Policy::DropOldest, Policy::DropLatest])),
            11 => {
                next_mw += 1;
                BCall::WithMiddleware(next_mw)
            }
            12 => {
                let k = g.rng.below(3);
                BCall::WithMiddlewares((0..k).map(|_| {
                    next_mw += 1;
                    next_mw
                }).collect())
            }
            _ => {
                next_mw += 1;
                BCall::AddMiddleware(next_mw)
            }
        });
    }
    v
}

/// family build: random builder call sequences and behavioural probes of the built store
pub fn build(seed: u64) -> Program {
    let mut g = Gen::new(seed);
    let knobs = g.knobs(false);
    let mut calls = random_bcalls(&mut g);
    // most sequences should build, so that the probes run
    if g.rng.chance(60) && !calls.iter().any(|c| matches!(c, BCall::WithReducer(_) | BCall::AddReducer(_) | BCall::WithoutReducer)) {
        let at = g.rng.below(calls.len() as u64 + 1) as usize;
        calls.insert(at, BCall::AddReducer(99));
    }
    let m = builder_model(&calls);
    let stepper_tag = m.reducers.first().cloned();
    let stepper = if m.ok && !m.hole_reducers && g.rng.chance(60) { stepper_tag.map(|t| (t, 0usize)) } else { None };
    let stores = vec![StoreCfg { builder: calls, droppable: false, stepper, ctor: 0 }];
    let mut main = vec![Op::Build { store: 0 }];
    let mut subs = vec![];
    let mut regs = 0;
    let mut threads: Vec<Vec<Op>> = vec![vec![]];
    let gates = if stepper.is_some() { 1 } else { 0 };
    if m.ok {
        subs.push(direct(false));
        main.push(Op::AddSub { store: 0, sub: 0, reg: 0 });
        regs = 1;
        if g.rng.chance(30) {
            subs.push(SubCfg { kind: SubKind::Channeled { cap: 2, policy: Policy::Block }, read_state: false, gate: None, sleep_ms: 0, shared: false, ..Default::default() });
            main.push(Op::AddSub { store: 0, sub: 1, reg: 1 });
            regs = 2;
        }
        let cap = m.capacity.max(1);
        let simple = |g: &mut Gen| {
            let a = g.new_act();
            g.acts.insert(a, ActScript { sel: g.rng.below(3) as u8, ..Default::default() });
            a
        };
        if stepper.is_some() {
            // capacity / policy probe: hold the reducer, burst, observe
            let a0 = simple(&mut g);
            main.push(Op::Dispatch { store: 0, act: a0, via: Via::Impl });
            main.push(Op::Settle);
            if m.policy == Policy::Block {
                // a producer thread bursts 2*cap+2: exactly cap return, then it blocks; after each
                // single step of the reducer exactly one more gets in
                let mut ops = vec![];
                for _ in 0..(2 * cap.min(6) + 2) {
                    let a = simple(&mut g);
                    ops.push(Op::Dispatch { store: 0, act: a, via: Via::Disp });
                }
                threads.push(ops);
                main.push(Op::Start { thread: 1 });
                main.push(Op::Settle);
                main.push(Op::Snap { tag: 0 });
                for k in 0..g.rng.range(0, 2) {
                    main.push(Op::Open { gate: 0, n: 1 });
                    main.push(Op::Settle);
                    main.push(Op::Snap { tag: k as u32 + 1 });
                }
                main.push(Op::Open { gate: 0, n: 1_000_000 });
                main.push(Op::Join { thread: 1 });
            } else {
                for _ in 0..(cap.min(6) + g.rng.range(1, 3) as usize) {
                    let a = simple(&mut g);
                    let via = g.via();
                    main.push(Op::Dispatch { store: 0, act: a, via });
                }
                main.push(Op::Settle);
                // sometimes a second round: let the reducer take one step, burst again
                if g.rng.chance(50) {
                    main.push(Op::Open { gate: 0, n: 1 });
                    main.push(Op::Settle);
                    for _ in 0..(cap.min(6) + g.rng.range(0, 2) as usize) {
                        let a = simple(&mut g);
                        let via = g.via();
                        main.push(Op::Dispatch { store: 0, act: a, via });
                    }
                    main.push(Op::Settle);
                }
                main.push(Op::Open { gate: 0, n: 1_000_000 });
                main.push(Op::Settle);
            }
        } else {
            for _ in 0..g.rng.range(1, 4) {
                let a = simple(&mut g);
                let via = g.via();
                main.push(Op::Dispatch { store: 0, act: a, via });
            }
        }
        main.push(Op::Stop { store: 0 });
        main.push(Op::GetMetrics { store: 0 });
        main.push(Op::GetState { store: 0 });
        for r in 0..regs {
            main.push(Op::Unsub { reg: r });
        }
    }
    threads[0] = main;
    g.finish("build", stores, subs, regs, 0, gates, threads, knobs, false)
}

/// family two: two stores side by side
pub fn two(seed: u64) -> Program {
    let mut g = Gen::new(seed);
    let knobs = g.knobs(false);
    let same_name = g.rng.chance(50);
    let shared_name = g.rng.pick(&["store", "twin"]);
    let mut stores = vec![];
    let mut reds_of = vec![];
    // twins under pressure: both stores with the same drop policy, tiny queues and reducers that are
    // sometimes slow, so that both queues are full at the same time
    let twins = if g.rng.chance(15) { Some(g.rng.pick(&[Policy::DropOldest, Policy::DropLatest])) } else { None };
    for s in 0..2 {
        let nred = g.rng.range(1, 2) as u32;
        // "the same reducer type": same tags on both stores
        let reds: Vec<u32> = (0..nred).collect();
        let policy = match twins {
            Some(p) => p,
            None => if g.rng.chance(70) { Policy::Block } else { g.rng.pick(&[Policy::DropOldest, Policy::DropLatest]) },
        };
        let cap = if twins.is_some() { g.rng.pick(&[1usize, 1, 2]) } else { g.rng.pick(&CAPS) };
        // equal names: the default one or an explicit one; different names otherwise
        let name = if same_name { shared_name.to_string() } else { format!("store{s}") };
        let builder = g.canonical_builder(&name, cap, policy, &reds, &[]);
        stores.push(StoreCfg { builder, droppable: g.rng.chance(40), stepper: None, ctor: 0 });
        reds_of.push(reds);
    }
    let mut subs = vec![direct(false), direct(false)];
    let mut main = vec![Op::Build { store: 0 }, Op::Build { store: 1 }, Op::AddSub { store: 0, sub: 0, reg: 0 }, Op::AddSub { store: 1, sub: 1, reg: 1 }];
    let mut regs = 2;
    // a subscriber object shared by both stores
    if g.rng.chance(50) {
        let kind = if g.rng.chance(40) { SubKind::Direct } else { SubKind::Selector };
        subs.push(SubCfg { kind, read_state: false, gate: None, sleep_ms: 0, shared: true, ..Default::default() });
        main.push(Op::AddSub { store: 0, sub: 2, reg: 2 });
        main.push(Op::AddSub { store: 1, sub: 2, reg: 3 });
        regs = 4;
    }
    let mut threads: Vec<Vec<Op>> = vec![vec![]];
    // a direct subscriber of one store that forwards (some of) what it is told to the other store,
    // through the Dispatcher interface, from the first store's reducer thread
    let forwarder: Option<(usize, usize)> = if g.rng.chance(20) { let from = g.rng.below(2) as usize; Some((from, 1 - from)) } else { None };
    let mut fwd_map: BTreeMap<ActId, ActId> = BTreeMap::new();
    let nprod = g.rng.range(1, 2 + g.scale) as usize;
    for _ in 0..nprod {
        let n = g.rng.range(2, 6 * g.scale) as usize;
        let mut ops = vec![];
        for _ in 0..n {
            let s = g.rng.below(2) as usize;
            let a = g.plain_act(&reds_of[s].clone(), 10);
            if let Some((from, to)) = forwarder {
                if s == from && g.rng.chance(50) {
                    let b = g.plain_act(&reds_of[to].clone(), 0);
                    fwd_map.insert(a, b);
                }
            }
            // sometimes the reducer answers with a follow-up action for its own store
            if g.rng.chance(12) {
                let id = g.new_eff();
                let f = g.plain_act(&reds_of[s].clone(), 0);
                let r0 = reds_of[s][0];
                g.acts.get_mut(&a).unwrap().red.entry(r0).or_default().eff = Some(EffSpec { id, kind: EffKind::Action(f), panic: false, gate: None, sleep_ms: 0 });
            }
            if twins.is_some() && g.rng.chance(25) {
                let r0 = reds_of[s][0];
                g.acts.get_mut(&a).unwrap().red.entry(r0).or_default().sleep_ms = 1;
            }
            let via = g.via();
            ops.push(Op::Dispatch { store: s, act: a, via });
            if g.rng.chance(10) {
                ops.push(Op::GetState { store: 1 - s });
            }
        }
        threads.push(ops);
    }
    if let Some((from, to)) = forwarder {
        subs.push(SubCfg { kind: SubKind::Direct, forward: Some((to, fwd_map.clone())), ..Default::default() });
        main.push(Op::AddSub { store: from, sub: subs.len() - 1, reg: regs });
        regs += 1;
    }
    // the shared subscriber object is sometimes unsubscribed from both stores by two different
    // threads while both stores are running
    if regs == 4 && threads.len() >= 3 && g.rng.chance(40) {
        for (r, t) in [(2usize, 1usize), (3usize, 2usize)] {
            let pos = g.rng.below(threads[t].len() as u64 + 1) as usize;
            threads[t].insert(pos, Op::Unsub { reg: r });
        }
    }
    // each store also has a subscriber of its own that some thread unsubscribes while both stores run
    if g.rng.chance(50) {
        for s in 0..2usize {
            let kind = if g.rng.chance(50) { SubKind::Direct } else { SubKind::Channeled { cap: g.rng.pick(&[1usize, 2, 4]), policy: Policy::Block } };
            subs.push(SubCfg { kind, read_state: false, gate: None, sleep_ms: 0, shared: false, ..Default::default() });
            main.push(Op::AddSub { store: s, sub: subs.len() - 1, reg: regs });
            let t = g.rng.range(1, threads.len() as u64 - 1) as usize;
            let pos = g.rng.below(threads[t].len() as u64 + 1) as usize;
            threads[t].insert(pos, Op::Unsub { reg: regs });
            regs += 1;
        }
    }
    // one store is stopped/dropped while the other is busy; the survivor keeps working
    let victim = g.rng.below(2) as usize;
    let survivor = 1 - victim;
    let mut stopper = vec![if stores[victim].droppable { Op::DropStore { store: victim } } else { Op::Stop { store: victim } }];
    // sometimes the victim is stopped from inside the other store: a task effect of one of the
    // survivor's actions calls stop() on it from the survivor's pool thread
    if g.rng.chance(25) {
        let a = g.plain_act(&reds_of[survivor].clone(), 0);
        let id = g.new_eff();
        let r0 = reds_of[survivor][0];
        g.acts.get_mut(&a).unwrap().red.entry(r0).or_default().eff = Some(EffSpec { id, kind: EffKind::StopOther { store: victim }, panic: false, gate: None, sleep_ms: 0 });
        let via = g.via();
        stopper[0] = Op::Dispatch { store: survivor, act: a, via };
    }
    for _ in 0..g.rng.range(1, 3) {
        let a = g.plain_act(&reds_of[survivor].clone(), 0);
        let via = g.via();
        stopper.push(Op::Dispatch { store: survivor, act: a, via });
    }
    stopper.push(Op::GetState { store: victim });
    stopper.push(Op::GetMetrics { store: survivor });
    threads.push(stopper);
    for t in 1..threads.len() {
        main.push(Op::Start { thread: t });
    }
    for t in 1..threads.len() {
        main.push(Op::Join { thread: t });
    }
    main.push(Op::Stop { store: victim });
    // the survivor is given time to come to rest while still open: whatever it accepted, and every
    // follow-up its reducers asked for, must have been processed by then
    main.push(Op::Settle);
    main.push(Op::Snap { tag: 0 });
    main.push(Op::Stop { store: survivor });
    for s in 0..2 {
        main.push(Op::GetState { store: s });
        main.push(Op::GetMetrics { store: s });
    }
    for r in 0..regs {
        main.push(Op::Unsub { reg: r });
    }
    threads[0] = main;
    g.finish("two", stores, subs, regs, 0, 0, threads, knobs, false)
}
