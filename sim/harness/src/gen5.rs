//! Generator for the family long: scale and accumulation.  One store (or many, one after the other)
//! used at sizes a toy test never reaches - queues of 33..300 slots filled to the brim, hundreds of
//! actions, dozens of subscribers, dozens of subscribe/unsubscribe cycles, dozens of stores built and
//! stopped in one process, dozens of panicking effects - so that thresholds (a batch of 32 or 64, a
//! window of 8, a counter that wraps, a slot table that fills up, a budget that leaks) are crossed.
//! Plain programs otherwise: every oracle applies.
use crate::gen::*;
use crate::model::*;

pub fn generate(family: &str, seed: u64) -> Program {
    match family {
        "long" => long(seed),
        // (the new shapes are selected by the seed itself so that every other seed keeps generating
        // the program it always did)
        "fleet" if seed % 40 == 7 => churn(Gen::new(seed), "fleet"),
        "fleet" => many_stores(Gen::new(seed)),
        _ => panic!("unknown family {family}"),
    }
}

fn simple(g: &mut Gen) -> ActId {
    let a = g.new_act();
    let sel = g.rng.below(3) as u8;
    g.acts.insert(a, ActScript { sel, ..Default::default() });
    a
}

pub fn long(seed: u64) -> Program {
    let mut g = Gen::new(seed);
    if seed % 7 == 3 {
        return if seed % 140 == 3 { churn(g, "long") } else { many_producers(g) };
    }
    match g.rng.below(12) {
        0..=2 => deep_queue(g),
        3..=4 => deep_subscriber(g),
        5..=7 => many_subscribers(g),
        8 => many_panics(g),
        9 => many_effects(g),
        _ => plain(g),
    }
}

const BIG: [usize; 8] = [33, 64, 65, 66, 100, 128, 200, 300];

/// a queue of 33..300 slots filled completely behind a parked reducer, then drained; twice
fn deep_queue(mut g: Gen) -> Program {
    let mut knobs = g.knobs(false);
    knobs.step_limit = 2_000_000;
    let policy = g.rng.pick(&[Policy::Block, Policy::Block, Policy::DropOldest, Policy::DropLatest]);
    let cap = g.rng.pick(&BIG);
    let reds = vec![0u32];
    let builder = g.canonical_builder("dq", cap, policy, &reds, &[]);
    let stores = vec![StoreCfg { builder, droppable: false, stepper: Some((0, 0)), ctor: 0 }];
    let subs = vec![SubCfg { kind: SubKind::Direct, ..Default::default() }];
    let mut main = vec![Op::Build { store: 0 }, Op::AddSub { store: 0, sub: 0, reg: 0 }];
    let mut threads: Vec<Vec<Op>> = vec![vec![]];
    // the reducer is parked inside the first action
    let a0 = simple(&mut g);
    main.push(Op::Dispatch { store: 0, act: a0, via: Via::Impl });
    main.push(Op::Settle);
    let rounds = g.rng.range(1, 2);
    if policy == Policy::Block {
        // a producer thread bursts more than the queue holds; it blocks at the brim
        let n = cap * rounds as usize + g.rng.range(2, 40) as usize;
        let mut ops = vec![];
        for _ in 0..n {
            let a = simple(&mut g);
            let via = g.via();
            ops.push(Op::Dispatch { store: 0, act: a, via });
        }
        threads.push(ops);
        main.push(Op::Start { thread: 1 });
        main.push(Op::Settle);
        main.push(Op::Snap { tag: 0 });
        for k in 0..g.rng.range(0, 3) {
            main.push(Op::Open { gate: 0, n: g.rng.pick(&[1u32, 2, 40]) });
            main.push(Op::Settle);
            main.push(Op::Snap { tag: k as u32 + 1 });
        }
        main.push(Op::Open { gate: 0, n: 1_000_000 });
        main.push(Op::Join { thread: 1 });
    } else {
        for _ in 0..rounds {
            let n = cap + g.rng.range(1, 40) as usize;
            for _ in 0..n {
                let a = simple(&mut g);
                let via = g.via();
                main.push(Op::Dispatch { store: 0, act: a, via });
            }
            main.push(Op::Settle);
            main.push(Op::Open { gate: 0, n: g.rng.pick(&[1u32, 3, 70]) });
            main.push(Op::Settle);
        }
        main.push(Op::Open { gate: 0, n: 1_000_000 });
        main.push(Op::Settle);
    }
    main.push(Op::Stop { store: 0 });
    main.push(Op::GetState { store: 0 });
    main.push(Op::GetMetrics { store: 0 });
    main.push(Op::Unsub { reg: 0 });
    threads[0] = main;
    g.finish("long", stores, subs, 1, 0, 1, threads, knobs, false)
}

/// a channeled subscriber (or an iterator's consumer) that falls 33..300 notifications behind
fn deep_subscriber(mut g: Gen) -> Program {
    let mut knobs = g.knobs(false);
    knobs.step_limit = 2_000_000;
    let reds = vec![0u32];
    let scap = g.rng.pick(&BIG);
    let dcap = g.rng.pick(&[16usize, 64, 300]);
    let builder = g.canonical_builder("ds", dcap, Policy::Block, &reds, &[]);
    let stores = vec![StoreCfg { builder, droppable: false, stepper: None, ctor: 0 }];
    let spol = g.rng.pick(&[Policy::Block, Policy::Block, Policy::DropOldest, Policy::DropLatest]);
    let subs = vec![
        SubCfg { kind: SubKind::Direct, ..Default::default() },
        SubCfg { kind: SubKind::Channeled { cap: scap, policy: spol }, gate: Some(0), ..Default::default() },
    ];
    let mut main = vec![Op::Build { store: 0 }, Op::AddSub { store: 0, sub: 0, reg: 0 }, Op::AddSub { store: 0, sub: 1, reg: 1 }];
    let n = scap + g.rng.range(0, 30) as usize - if spol == Policy::Block { g.rng.range(0, 3) as usize } else { 0 };
    // with the blocking policy the backlog must fit (the parked subscriber holds one itself)
    let n = if spol == Policy::Block { n.min(scap) } else { n };
    for _ in 0..n {
        let a = simple(&mut g);
        let via = g.via();
        main.push(Op::Dispatch { store: 0, act: a, via });
    }
    main.push(Op::Settle);
    main.push(Op::Snap { tag: 0 });
    main.push(Op::Open { gate: 0, n: 1_000_000 });
    if g.rng.chance(50) {
        main.push(Op::Settle);
        for _ in 0..g.rng.range(1, 40) {
            let a = simple(&mut g);
            main.push(Op::Dispatch { store: 0, act: a, via: Via::Impl });
        }
    }
    main.push(if g.rng.chance(50) { Op::Stop { store: 0 } } else { Op::Unsub { reg: 1 } });
    main.push(Op::Stop { store: 0 });
    main.push(Op::GetMetrics { store: 0 });
    main.push(Op::Unsub { reg: 0 });
    main.push(Op::Unsub { reg: 1 });
    let threads = vec![main];
    g.finish("long", stores, subs, 2, 0, 1, threads, knobs, false)
}

/// 9..24 subscribers of all kinds, some of them leaving while a notification round is under way
fn many_subscribers(mut g: Gen) -> Program {
    let mut knobs = g.knobs(false);
    knobs.step_limit = 1_000_000;
    let reds = vec![0u32];
    let builder = g.canonical_builder("ms", 16, Policy::Block, &reds, &[]);
    let stores = vec![StoreCfg { builder, droppable: false, stepper: None, ctor: 0 }];
    let mut subs = vec![SubCfg { kind: SubKind::Direct, ..Default::default() }];
    let mut main = vec![Op::Build { store: 0 }, Op::AddSub { store: 0, sub: 0, reg: 0 }];
    let mut regs = 1usize;
    let nsub = g.rng.pick(&[9usize, 10, 13, 17, 24, 40, 70, 80]);
    let leave_pct = g.rng.pick(&[20u64, 30, 50, 60]);
    // sometimes the oldest K subscribers leave, in registration order (dozens of removals, each
    // leaving a hole at the front of whatever the store keeps them in)
    let oldest_k = if nsub >= 40 && g.rng.chance(40) { Some(g.rng.pick(&[33usize, 36, 45]).min(nsub - 5)) } else { None };
    let mut leavers = vec![];
    for k in 0..nsub {
        let kind = match g.rng.below(10) {
            0..=6 => SubKind::Direct,
            7 => SubKind::Selector,
            _ => SubKind::Channeled { cap: 16, policy: Policy::Block },
        };
        let leaves = match oldest_k {
            Some(kk) => k < kk,
            None => kind == SubKind::Direct && k < nsub - 1 && g.rng.chance(leave_pct),
        };
        let kind = if oldest_k.is_some() && k < nsub - 1 { SubKind::Direct } else { kind };
        if leaves {
            leavers.push(regs);
        }
        subs.push(SubCfg { kind, ..Default::default() });
        main.push(Op::AddSub { store: 0, sub: subs.len() - 1, reg: regs });
        regs += 1;
    }
    // an iterator registered last, consumed by its own thread
    let mut threads: Vec<Vec<Op>> = vec![vec![]];
    main.push(Op::Iter { store: 0, it: 0 });
    // enough actions for the producer to outlast the leavers
    let n = g.rng.range(10, 40) as usize + nsub;
    let mut ops = vec![];
    for _ in 0..n {
        let a = simple(&mut g);
        let via = g.via();
        ops.push(Op::Dispatch { store: 0, act: a, via });
    }
    threads.push(ops);
    // the leavers are unsubscribed by another thread while the producer runs
    let mut l = vec![];
    for r in &leavers {
        l.push(Op::Unsub { reg: *r });
        if g.rng.chance(30) {
            l.push(Op::GetState { store: 0 });
        }
    }
    threads.push(l);
    threads.push(vec![Op::Drain { it: 0 }]);
    for t in 1..threads.len() {
        main.push(Op::Start { thread: t });
    }
    main.push(Op::Join { thread: 1 });
    main.push(Op::Join { thread: 2 });
    main.push(Op::Stop { store: 0 });
    main.push(Op::Join { thread: 3 });
    main.push(Op::GetMetrics { store: 0 });
    for r in 0..regs {
        main.push(Op::Unsub { reg: r });
    }
    threads[0] = main;
    g.finish("long", stores, subs, regs, 1, 0, threads, knobs, false)
}

/// family fleet: 40..70 stores built, used and stopped one after the other in one process
fn many_stores(mut g: Gen) -> Program {
    let mut knobs = g.knobs(false);
    knobs.step_limit = 2_000_000;
    let n = g.rng.pick(&[40usize, 66, 66, 70]);
    let same_name = g.rng.chance(50);
    let mut stores = vec![];
    let mut subs = vec![];
    let mut main = vec![];
    for s in 0..n {
        let reds = vec![0u32];
        let name = if same_name { "store".to_string() } else { format!("s{s}") };
        let builder = g.canonical_builder(&name, 16, Policy::Block, &reds, &[]);
        stores.push(StoreCfg { builder, droppable: g.rng.chance(30), stepper: None, ctor: 0 });
        subs.push(SubCfg { kind: SubKind::Direct, ..Default::default() });
        main.push(Op::Build { store: s });
        main.push(Op::AddSub { store: s, sub: s, reg: s });
        // an action whose reducer asks for a follow-up action and a task
        let a = simple(&mut g);
        let f = simple(&mut g);
        let id = g.new_eff();
        g.acts.get_mut(&a).unwrap().red.entry(0).or_default().eff = Some(EffSpec { id, kind: EffKind::Action(f), panic: false, gate: None, sleep_ms: 0 });
        main.push(Op::Dispatch { store: s, act: a, via: Via::Impl });
        let b = simple(&mut g);
        let id2 = g.new_eff();
        g.acts.get_mut(&b).unwrap().red.entry(0).or_default().eff = Some(EffSpec { id: id2, kind: EffKind::Task, panic: false, gate: None, sleep_ms: 0 });
        main.push(Op::Dispatch { store: s, act: b, via: Via::Disp });
        main.push(Op::Settle);
        main.push(Op::Snap { tag: s as u32 });
        main.push(if stores[s].droppable { Op::DropStore { store: s } } else { Op::Stop { store: s } });
        main.push(Op::Unsub { reg: s });
    }
    let threads = vec![main];
    g.finish("fleet", stores, subs, n, 0, 0, threads, knobs, false)
}

/// dozens of panicking effects over the life of one store, then ordinary work
fn many_panics(mut g: Gen) -> Program {
    let mut knobs = g.knobs(true);
    knobs.step_limit = 1_000_000;
    let reds = vec![0u32];
    let builder = g.canonical_builder("mp", 16, Policy::Block, &reds, &[]);
    let stores = vec![StoreCfg { builder, droppable: false, stepper: None, ctor: 0 }];
    let subs = vec![SubCfg { kind: SubKind::Direct, ..Default::default() }];
    let mut main = vec![Op::Build { store: 0 }, Op::AddSub { store: 0, sub: 0, reg: 0 }];
    let n = g.rng.pick(&[20usize, 64, 65, 70, 130]);
    for k in 0..n + 5 {
        let a = simple(&mut g);
        let id = g.new_eff();
        let kind = if g.rng.chance(50) { EffKind::Task } else { EffKind::Function };
        g.acts.get_mut(&a).unwrap().red.entry(0).or_default().eff = Some(EffSpec { id, kind, panic: k < n, gate: None, sleep_ms: 0 });
        main.push(Op::Dispatch { store: 0, act: a, via: Via::Impl });
        if k % 16 == 15 {
            main.push(Op::Settle);
        }
    }
    main.push(Op::Settle);
    main.push(Op::Snap { tag: 0 });
    main.push(Op::Stop { store: 0 });
    main.push(Op::GetState { store: 0 });
    main.push(Op::GetMetrics { store: 0 });
    main.push(Op::Unsub { reg: 0 });
    let threads = vec![main];
    g.finish("long", stores, subs, 1, 0, 0, threads, knobs, true)
}

/// a store used for a while: hundreds of actions, subscribers coming and going
fn plain(mut g: Gen) -> Program {
    let mut knobs = g.knobs(false);
    let total = g.rng.pick(&[40usize, 70, 70, 130, 130, 300, 300, 520, 1100]);
    knobs.step_limit = 2_000_000;
    let policy = match g.rng.below(10) {
        0..=5 => Policy::Block,
        6..=7 => Policy::DropOldest,
        _ => Policy::DropLatest,
    };
    let cap = g.rng.pick(&[1usize, 2, 5, 16, 16, 64, 128]);
    let nred = g.rng.range(1, 2) as u32;
    let reds: Vec<u32> = (0..nred).collect();
    let nmw = g.rng.pick(&[0u32, 0, 1, 1, 3, 9, 12]);
    let mws: Vec<u32> = (100..100 + nmw).collect();
    let name = if g.rng.chance(50) { "store".to_string() } else { "lg".to_string() };
    let builder = g.canonical_builder(&name, cap, policy, &reds, &mws);
    let stores = vec![StoreCfg { builder, droppable: g.rng.chance(20), stepper: None, ctor: 0 }];
    let mut subs = vec![SubCfg { kind: SubKind::Direct, ..Default::default() }];
    let mut main = vec![Op::Build { store: 0 }, Op::AddSub { store: 0, sub: 0, reg: 0 }];
    let mut regs = 1usize;
    if g.rng.chance(70) {
        subs.push(SubCfg { kind: SubKind::Selector, ..Default::default() });
        main.push(Op::AddSub { store: 0, sub: subs.len() - 1, reg: regs });
        regs += 1;
    }
    if g.rng.chance(70) {
        let p = g.rng.pick(&[Policy::Block, Policy::Block, Policy::DropOldest, Policy::DropLatest]);
        subs.push(SubCfg { kind: SubKind::Channeled { cap: g.rng.pick(&[1usize, 4, 16, 64]), policy: p }, ..Default::default() });
        main.push(Op::AddSub { store: 0, sub: subs.len() - 1, reg: regs });
        regs += 1;
    }
    if g.rng.chance(50) {
        subs.push(SubCfg { kind: SubKind::Direct, read_state: g.rng.chance(30), ..Default::default() });
        main.push(Op::AddSub { store: 0, sub: subs.len() - 1, reg: regs });
        regs += 1;
    }
    let mut threads: Vec<Vec<Op>> = vec![vec![]];
    let nprod = g.rng.range(1, 3) as usize;
    let mut left = total;
    for k in 0..nprod {
        let n = if k + 1 == nprod { left } else { left / (nprod - k) };
        left -= n;
        let mut ops = Vec::with_capacity(n);
        for _ in 0..n {
            let a = g.plain_act(&reds, 8);
            if !mws.is_empty() && g.rng.chance(15) {
                let mut m = MwScript::default();
                m.verdict[g.rng.below(3) as usize] = g.rng.pick(&[Verdict::Done, Verdict::Break, Verdict::Break, Verdict::Continue]);
                let which = mws[g.rng.below(mws.len() as u64) as usize];
                g.acts.get_mut(&a).unwrap().mw.insert(which, m);
            }
            if g.rng.chance(3) {
                let id = g.new_eff();
                let f = g.plain_act(&reds, 0);
                g.acts.get_mut(&a).unwrap().red.entry(reds[0]).or_default().eff = Some(EffSpec { id, kind: EffKind::Action(f), panic: false, gate: None, sleep_ms: 0 });
            }
            let via = g.via();
            ops.push(Op::Dispatch { store: 0, act: a, via });
            if g.rng.chance(2) {
                ops.push(Op::GetState { store: 0 });
            }
            if g.rng.chance(1) {
                ops.push(Op::GetMetrics { store: 0 });
            }
        }
        threads.push(ops);
    }
    // a reader that polls state and metrics while the producers run
    if g.rng.chance(40) {
        let k = g.rng.pick(&[20usize, 100, 300]);
        threads.push((0..k).map(|_| if g.rng.chance(60) { Op::GetMetrics { store: 0 } } else { Op::GetState { store: 0 } }).collect());
    }
    let cycles = g.rng.pick(&[0usize, 5, 20, 20, 70, 300]);
    if cycles > 0 {
        let mut ops = vec![];
        for _ in 0..cycles {
            let kind = match g.rng.below(10) {
                0..=5 => SubKind::Direct,
                6..=7 => SubKind::Selector,
                _ => SubKind::Channeled { cap: g.rng.pick(&[1usize, 4]), policy: Policy::Block },
            };
            subs.push(SubCfg { kind, ..Default::default() });
            ops.push(Op::AddSub { store: 0, sub: subs.len() - 1, reg: regs });
            if g.rng.chance(30) {
                ops.push(Op::GetState { store: 0 });
            }
            ops.push(Op::Unsub { reg: regs });
            if g.rng.chance(10) {
                ops.push(Op::Unsub { reg: regs });
            }
            regs += 1;
        }
        threads.push(ops);
    }
    let mut iters = 0usize;
    if g.rng.chance(40) {
        main.push(Op::Iter { store: 0, it: 0 });
        threads.push(vec![Op::Drain { it: 0 }]);
        iters = 1;
    }
    for t in 1..threads.len() {
        main.push(Op::Start { thread: t });
    }
    let consumer = if iters == 1 { Some(threads.len() - 1) } else { None };
    for t in 1..threads.len() {
        if Some(t) != consumer {
            main.push(Op::Join { thread: t });
        }
    }
    if g.rng.chance(50) {
        main.push(Op::Settle);
        main.push(Op::Snap { tag: 0 });
    }
    main.push(if stores[0].droppable { Op::DropStore { store: 0 } } else { Op::Stop { store: 0 } });
    if let Some(t) = consumer {
        main.push(Op::Join { thread: t });
    }
    main.push(Op::Stop { store: 0 });
    main.push(Op::GetState { store: 0 });
    main.push(Op::GetMetrics { store: 0 });
    for r in 0..regs {
        main.push(Op::Unsub { reg: r });
    }
    threads[0] = main;
    g.finish("long", stores, subs, regs, iters, 0, threads, knobs, false)
}

/// dozens of effect jobs outstanding at once (parked on a gate), follow-up actions behind them, and
/// the store stopped or dropped while they are still outstanding
fn many_effects(mut g: Gen) -> Program {
    let mut knobs = g.knobs(false);
    knobs.step_limit = 1_000_000;
    let reds = vec![0u32];
    let cap = g.rng.pick(&[16usize, 64, 128]);
    let builder = g.canonical_builder("me", cap, Policy::Block, &reds, &[]);
    let droppable = g.rng.chance(50);
    let stores = vec![StoreCfg { builder, droppable, stepper: None, ctor: 0 }];
    let subs = vec![SubCfg { kind: SubKind::Direct, ..Default::default() }];
    let mut main = vec![Op::Build { store: 0 }, Op::AddSub { store: 0, sub: 0, reg: 0 }];
    let n = g.rng.pick(&[20usize, 63, 64, 65, 70, 130]);
    for _ in 0..n {
        let a = simple(&mut g);
        let id = g.new_eff();
        let kind = if g.rng.chance(50) { EffKind::Task } else { EffKind::Function };
        g.acts.get_mut(&a).unwrap().red.entry(0).or_default().eff = Some(EffSpec { id, kind, panic: false, gate: Some(0), sleep_ms: 0 });
        main.push(Op::Dispatch { store: 0, act: a, via: Via::Impl });
    }
    main.push(Op::Settle);
    main.push(Op::Snap { tag: 0 });
    // behind them: actions whose reducers ask for follow-ups, tasks and plain ones
    let m = g.rng.range(2, 12) as usize;
    for _ in 0..m {
        let a = simple(&mut g);
        match g.rng.below(3) {
            0 => {
                let id = g.new_eff();
                let f = simple(&mut g);
                g.acts.get_mut(&a).unwrap().red.entry(0).or_default().eff = Some(EffSpec { id, kind: EffKind::Action(f), panic: false, gate: None, sleep_ms: 0 });
            }
            1 => {
                let id = g.new_eff();
                g.acts.get_mut(&a).unwrap().red.entry(0).or_default().eff = Some(EffSpec { id, kind: EffKind::Task, panic: false, gate: None, sleep_ms: 0 });
            }
            _ => {}
        }
        let via = g.via();
        main.push(Op::Dispatch { store: 0, act: a, via });
    }
    let mut threads: Vec<Vec<Op>> = vec![vec![]];
    threads.push(vec![if droppable { Op::DropStore { store: 0 } } else { Op::Stop { store: 0 } }, Op::GetState { store: 0 }]);
    if g.rng.chance(50) {
        main.push(Op::Settle);
    }
    main.push(Op::Start { thread: 1 });
    main.push(Op::Settle);
    main.push(Op::Open { gate: 0, n: 1_000_000 });
    main.push(Op::Join { thread: 1 });
    main.push(Op::Stop { store: 0 });
    main.push(Op::GetState { store: 0 });
    main.push(Op::GetMetrics { store: 0 });
    main.push(Op::Unsub { reg: 0 });
    threads[0] = main;
    g.finish("long", stores, subs, 1, 0, 1, threads, knobs, false)
}

/// 10..40 producer threads against a parked reducer and a small queue: all of them inside dispatch()
/// at once (blocking policy), or one after the other / all at once with a drop policy, so that more
/// distinct threads than any fixed table holds have blocked, dropped or been refused on one store
fn many_producers(mut g: Gen) -> Program {
    let mut knobs = g.knobs(false);
    knobs.step_limit = 2_000_000;
    let policy = g.rng.pick(&[Policy::Block, Policy::Block, Policy::DropOldest, Policy::DropLatest]);
    let cap = g.rng.pick(&[1usize, 2, 4, 8, 16]);
    let nprod = g.rng.pick(&[10usize, 12, 17, 18, 24, 33, 40]);
    let reds = vec![0u32];
    let builder = g.canonical_builder("mp", cap, policy, &reds, &[]);
    let stores = vec![StoreCfg { builder, droppable: false, stepper: Some((0, 0)), ctor: 0 }];
    let subs = vec![SubCfg { kind: SubKind::Direct, ..Default::default() }];
    let mut main = vec![Op::Build { store: 0 }, Op::AddSub { store: 0, sub: 0, reg: 0 }];
    let mut threads: Vec<Vec<Op>> = vec![vec![]];
    // the reducer is parked inside the first action, the queue is filled to the brim
    let a0 = simple(&mut g);
    main.push(Op::Dispatch { store: 0, act: a0, via: Via::Impl });
    main.push(Op::Settle);
    for _ in 0..cap {
        let a = simple(&mut g);
        main.push(Op::Dispatch { store: 0, act: a, via: Via::Impl });
    }
    for _ in 0..nprod {
        let k = g.rng.pick(&[1usize, 1, 2, 5]);
        let mut ops = vec![];
        for _ in 0..k {
            let a = simple(&mut g);
            let via = g.via();
            ops.push(Op::Dispatch { store: 0, act: a, via });
        }
        threads.push(ops);
    }
    let sequential = policy != Policy::Block && g.rng.chance(50);
    if sequential {
        for t in 1..=nprod {
            main.push(Op::Start { thread: t });
            main.push(Op::Join { thread: t });
        }
        main.push(Op::Snap { tag: 0 });
    } else {
        for t in 1..=nprod {
            main.push(Op::Start { thread: t });
        }
        main.push(Op::Settle);
        main.push(Op::Snap { tag: 0 });
        for k in 0..g.rng.range(0, 3) {
            main.push(Op::Open { gate: 0, n: g.rng.pick(&[1u32, 2, 9]) });
            main.push(Op::Settle);
            main.push(Op::Snap { tag: k as u32 + 1 });
        }
    }
    main.push(Op::Open { gate: 0, n: 1_000_000 });
    if !sequential {
        for t in 1..=nprod {
            main.push(Op::Join { thread: t });
        }
    }
    main.push(Op::Settle);
    main.push(Op::Stop { store: 0 });
    main.push(Op::GetState { store: 0 });
    main.push(Op::GetMetrics { store: 0 });
    main.push(Op::Unsub { reg: 0 });
    threads[0] = main;
    g.finish("long", stores, subs, 1, 0, 1, threads, knobs, false)
}

/// tens of thousands of subscribe/unsubscribe pairs over the life of a process, spread over one
/// store (family long) or two or three that are alive at the same time (family fleet), each with
/// long-lived subscribers registered first: whatever the code counts per registration passes
/// 65 536.  One thread; the cost is in the number of registrations, not in the interleavings.
fn churn(mut g: Gen, family: &str) -> Program {
    let mut knobs = g.knobs(false);
    knobs.step_limit = 20_000_000;
    let nstores = if family == "fleet" { g.rng.range(2, 3) as usize } else { 1 };
    let mut stores = vec![];
    let mut subs = vec![];
    let mut main = vec![];
    let mut regs = 0usize;
    let reds = vec![0u32];
    for s in 0..nstores {
        let builder = g.canonical_builder(&format!("ch{s}"), 16, Policy::Block, &reds, &[]);
        stores.push(StoreCfg { builder, droppable: false, stepper: None, ctor: 0 });
        main.push(Op::Build { store: s });
    }
    // the long-lived ones, registered alternately so that their registrations are neighbours
    for _ in 0..g.rng.range(2, 4) {
        for s in 0..nstores {
            let kind = if g.rng.chance(80) { SubKind::Direct } else { SubKind::Selector };
            subs.push(SubCfg { kind, ..Default::default() });
            main.push(Op::AddSub { store: s, sub: subs.len() - 1, reg: regs });
            regs += 1;
        }
    }
    let live = regs;
    let total = g.rng.pick(&[65_600usize, 66_000, 70_000]);
    for k in 0..total {
        let s = g.rng.below(nstores as u64) as usize;
        subs.push(SubCfg { kind: SubKind::Direct, ..Default::default() });
        main.push(Op::AddSub { store: s, sub: subs.len() - 1, reg: regs });
        main.push(Op::Unsub { reg: regs });
        regs += 1;
        if k % 8192 == 8191 {
            let a = simple(&mut g);
            main.push(Op::Dispatch { store: s, act: a, via: Via::Impl });
            main.push(Op::Settle);
        }
    }
    for s in 0..nstores {
        for _ in 0..3 {
            let a = simple(&mut g);
            main.push(Op::Dispatch { store: s, act: a, via: Via::Impl });
        }
    }
    main.push(Op::Settle);
    main.push(Op::Snap { tag: 0 });
    for s in 0..nstores {
        main.push(Op::Stop { store: s });
        main.push(Op::GetMetrics { store: s });
    }
    for r in 0..live {
        main.push(Op::Unsub { reg: r });
    }
    let threads = vec![main];
    g.finish(family, stores, subs, regs, 0, 0, threads, knobs, false)
}
