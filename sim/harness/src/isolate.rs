//! One simulated run per OS process.
//!
//! A run may leave things behind that must not reach the next one: threads parked for ever by a
//! deadlock, and - in a changed tree - process-wide state of the code under test (a `static`
//! counter, a lazily started global helper thread, a thread-local slot assignment).  The worker
//! therefore forks before every run; the child performs the run, writes its result to a pipe and
//! `_exit`s.  The forking process never runs a simulation itself and has a single thread, so the
//! fork is safe and every run starts from the state of a freshly started process: `(family, seed)`
//! alone reproduces it.  A child that does not finish in time is blocked on something the
//! simulator does not control and is killed (harness error, never a violation).

use std::io::Read;
use std::os::unix::io::FromRawFd;

pub enum ChildEnd {
    Done(Vec<u8>),
    TimedOut,
    Crashed(String),
}

/// run `f` in a forked child and return what it wrote; `timeout_ms` of real time
pub fn in_child<F: FnOnce() -> Vec<u8>>(f: F, timeout_ms: u64) -> ChildEnd {
    unsafe {
        let mut fds = [0i32; 2];
        if libc::pipe(fds.as_mut_ptr()) != 0 {
            return ChildEnd::Crashed("pipe() failed".into());
        }
        let pid = libc::fork();
        if pid < 0 {
            libc::close(fds[0]);
            libc::close(fds[1]);
            return ChildEnd::Crashed("fork() failed".into());
        }
        if pid == 0 {
            libc::close(fds[0]);
            let out = match std::panic::catch_unwind(std::panic::AssertUnwindSafe(f)) {
                Ok(v) => v,
                Err(_) => b"PANIC".to_vec(),
            };
            let mut off = 0usize;
            while off < out.len() {
                let n = libc::write(fds[1], out[off..].as_ptr() as *const libc::c_void, out.len() - off);
                if n <= 0 {
                    break;
                }
                off += n as usize;
            }
            libc::close(fds[1]);
            libc::_exit(0);
        }
        libc::close(fds[1]);
        // read with a deadline
        let mut buf = Vec::new();
        let mut file = std::fs::File::from_raw_fd(fds[0]);
        let started = std::time::Instant::now();
        let mut timed_out = false;
        loop {
            let left = timeout_ms as i128 - started.elapsed().as_millis() as i128;
            if left <= 0 {
                timed_out = true;
                break;
            }
            let mut pfd = libc::pollfd { fd: fds[0], events: libc::POLLIN, revents: 0 };
            let r = libc::poll(&mut pfd, 1, left.min(1000) as i32);
            if r < 0 {
                continue;
            }
            if r == 0 {
                continue;
            }
            let mut chunk = [0u8; 65536];
            match file.read(&mut chunk) {
                Ok(0) => break,
                Ok(n) => buf.extend_from_slice(&chunk[..n]),
                Err(_) => break,
            }
        }
        if timed_out {
            libc::kill(pid, libc::SIGKILL);
        }
        let mut status = 0i32;
        libc::waitpid(pid, &mut status, 0);
        drop(file);
        if timed_out {
            return ChildEnd::TimedOut;
        }
        if buf == b"PANIC" {
            return ChildEnd::Crashed("the run panicked in the harness".into());
        }
        if !libc::WIFEXITED(status) || libc::WEXITSTATUS(status) != 0 {
            return ChildEnd::Crashed(format!("child ended with wait status {status:#x}"));
        }
        ChildEnd::Done(buf)
    }
}
