mod coord;
mod digest;
mod exec;
mod gen;
mod gen2;
mod gen3;
mod gen4;
mod gen5;
mod isolate;
mod model;
mod oracle;
mod oracle2;
mod oracle3;
mod oracle4;
mod oracle5;
mod props;
mod rng;
mod worker;
mod world;

use digest::*;

fn silence_panics() {
    std::panic::set_hook(Box::new(|info| {
        let msg = info.payload().downcast_ref::<&str>().map(|s| s.to_string())
            .or_else(|| info.payload().downcast_ref::<String>().cloned()).unwrap_or_default();
        // expected traffic: scripted effect panics and the expect() of Effect::Action after close
        if msg.contains("scripted effect panic") || msg.contains("no dispatch failed") {
            return;
        }
        eprintln!("simcheck: panic in simulated thread {:?}: {} at {:?}", std::thread::current().name(), msg, info.location());
    }));
}

fn main() {
    let args: Vec<String> = std::env::args().collect();
    silence_panics();
    match args.get(1).map(|s| s.as_str()) {
        Some("one") => {
            let fam = &args[2];
            let seed: u64 = args[3].parse().unwrap();
            let prog = gen::generate(fam, seed);
            println!("{}", serde_json::to_string(&prog).unwrap());
            let rec = exec::run_program(&prog, seed, None, false);
            for (i, e) in rec.ev.iter().enumerate() {
                println!("{i:4} t{:<2} {:?}", e.tid, e.k);
            }
            println!("{:?} steps={} clock={}", rec.out.end, rec.out.steps, rec.out.clock_ns);
            let d = Digest::new(&rec);
            for v in oracle::check_all(&d) {
                println!("VIOL {:?}", v);
            }
        }
        Some("time") => {
            // simcheck time <family> <seed>: where one run spends its time
            let fam = &args[2];
            let seed: u64 = args[3].parse().unwrap();
            let t = std::time::Instant::now();
            let prog = gen::generate(fam, seed);
            let t_gen = t.elapsed();
            let rec = exec::run_program(&prog, seed, None, false);
            let t_run = t.elapsed();
            let d = Digest::new(&rec);
            let t_dig = t.elapsed();
            let v = oracle::check_all(&d);
            let t_or = t.elapsed();
            println!("{:?} steps={} events={} violations={} gen={:?} run={:?} digest={:?} oracles={:?}", rec.out.end, rec.out.steps, rec.ev.len(), v.len(), t_gen, t_run - t_gen, t_dig - t_run, t_or - t_dig);
            for x in v.iter().take(3) {
                println!("VIOL {:?}", x);
            }
            let t = std::time::Instant::now();
            let mut abs = std::collections::BTreeSet::new();
            worker::abstract_states(&d, &mut abs);
            let t_abs = t.elapsed();
            let np = props::probes(&d).len();
            let t_pr = t.elapsed();
            for p in ["C03", "C09", "C19", "C05"] {
                let _ = props::nontrivial(p, &d);
            }
            let t_nt = t.elapsed();
            let _ = worker::sample_json(&rec, 0);
            let t_sj = t.elapsed();
            println!("abstract_states={:?} ({}) probes={:?} ({np}) nontrivial={:?} sample_json={:?}", t_abs, abs.len(), t_pr - t_abs, t_nt - t_pr, t_sj - t_nt);
        }
        Some("batch") => {
            simrt::pin_to_core(2);
            let fam = &args[2];
            let from: u64 = args[3].parse().unwrap();
            let to: u64 = args[4].parse().unwrap();
            let t = std::time::Instant::now();
            let (mut steps, mut nv, mut incomplete) = (0u64, 0u64, 0u64);
            let mut known = std::collections::BTreeMap::new();
            for i in from..to {
                let seed = rng::run_seed(0xC0FFEE, i);
                let prog = gen::generate(fam, seed);
                let rec = exec::run_program(&prog, seed, None, false);
                steps += rec.out.steps;
                if rec.out.end != simrt::End::Complete {
                    incomplete += 1;
                    if incomplete < 5 { println!("run {i} seed {seed}: {:?} {:?}", rec.out.end, rec.out.blocked); }
                }
                let d = Digest::new(&rec);
                for v in oracle::check_all(&d) {
                    if let Some(k) = v.known { *known.entry(k).or_insert(0u64) += 1; continue; }
                    nv += 1;
                    if nv < 10 { println!("run {i} seed {seed}: {:?}", v); }
                }
            }
            let n = to - from;
            println!("{n} runs, {} steps/run, {:.3} ms/run, violations {nv}, incomplete {incomplete}, known {known:?}", steps / n.max(1), t.elapsed().as_secs_f64() * 1000.0 / n as f64);
        }
        Some("worker") => {
            let prop = &args[2];
            let seed: u64 = args[3].parse().unwrap();
            let from: u64 = args[4].parse().unwrap();
            let to: u64 = args[5].parse().unwrap();
            let w: usize = args[6].parse().unwrap();
            let ncpu = std::thread::available_parallelism().map(|n| n.get()).unwrap_or(1);
            simrt::pin_to_core(w % ncpu);
            if std::env::var("VERIF_TIER").map(|t| t == "thorough").unwrap_or(false) {
                gen::SCALE.store(2, std::sync::atomic::Ordering::Relaxed);
            }
            let st = worker::run_chunk(prop, seed, from, to, args.get(7).map(|s| s.as_str()));
            println!("{}", serde_json::to_string(&st).unwrap());
        }
        Some("check") => {
            let prop = args[2].clone();
            let mut tier = std::env::var("VERIF_TIER").unwrap_or_else(|_| "quick".into());
            let mut seed = std::env::var("VERIF_SEED").ok().and_then(|s| s.parse().ok()).unwrap_or(coord::DEFAULT_SEED);
            let mut runs = None;
            let mut family = None;
            let mut workers = std::thread::available_parallelism().map(|n| n.get()).unwrap_or(4);
            let mut budget = std::env::var("VERIF_BUDGET_S").ok().and_then(|s| s.parse().ok());
            let mut i = 3;
            while i < args.len() {
                match args[i].as_str() {
                    "--tier" => { tier = args[i + 1].clone(); i += 1; }
                    "--seed" => { seed = args[i + 1].parse().unwrap(); i += 1; }
                    "--runs" => { runs = Some(args[i + 1].parse().unwrap()); i += 1; }
                    "--workers" => { workers = args[i + 1].parse().unwrap(); i += 1; }
                    "--budget" => { budget = Some(args[i + 1].parse().unwrap()); i += 1; }
                    "--family" => { family = Some(args[i + 1].clone()); i += 1; }
                    "--replay" => { std::process::exit(coord::replay(&args[i + 1])); }
                    x => { eprintln!("simcheck: unknown option {x}"); std::process::exit(2); }
                }
                i += 1;
            }
            std::process::exit(coord::check(coord::CheckArgs { prop, tier, seed, workers, runs, budget_s: budget, family }));
        }
        Some("replay") => std::process::exit(coord::replay(&args[2])),
        Some("selftest-determinism") => {
            let runs = args.get(2).and_then(|s| s.parse().ok()).unwrap_or(6000);
            std::process::exit(coord::selftest_determinism(runs));
        }
        _ => {
            eprintln!("usage: simcheck one <family> <seed> | batch <family> <from> <to>");
            std::process::exit(2);
        }
    }
}
