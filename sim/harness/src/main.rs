use rs_store::*;
use std::sync::Arc;
use std::time::Instant;

fn scenario() {
    let reducer = |s: &i64, a: &i64| DispatchOp::Dispatch(s * 31 + a, None);
    let store = StoreBuilder::new(0i64)
        .with_reducer(Box::new(FnReducer::from(reducer)))
        .with_capacity(2)
        .build()
        .unwrap();
    let s2 = store.clone();
    let h = simrt::thread::spawn(move || {
        for i in 0..5 {
            s2.dispatch(100 + i).unwrap();
        }
    });
    for i in 0..5 {
        store.dispatch(i).unwrap();
    }
    h.join().unwrap();
    store.stop();
    let _ = store.get_state();
}

fn main() {
    simrt::pin_to_core(3);
    let n: u64 = std::env::args().nth(1).map(|s| s.parse().unwrap()).unwrap_or(2000);
    let t = Instant::now();
    let mut steps = 0;
    let mut hashes = std::collections::BTreeSet::new();
    for seed in 0..n {
        let mut cfg = simrt::Config::new(seed);
        cfg.strategy = match seed % 3 { 0 => simrt::Strategy::Uniform, 1 => simrt::Strategy::Sticky(900), _ => simrt::Strategy::Pct{d:2, horizon:500} };
        cfg.cpus = [1,2,4,16][(seed % 4) as usize];
        let o = simrt::run(cfg.clone(), scenario);
        assert_eq!(o.end, simrt::End::Complete, "seed {seed}: {:?}", o.blocked);
        let o2 = simrt::run(cfg, scenario);
        assert_eq!(o.schedule_hash, o2.schedule_hash);
        assert_eq!(o.decisions, o2.decisions);
        steps += o.steps;
        hashes.insert(o.schedule_hash);
        if seed < 3 { println!("seed {seed}: steps {} switches {} clock {} threads {}", o.steps, o.context_switches, o.clock_ns, o.threads_total); }
    }
    let el = t.elapsed().as_secs_f64();
    println!("{n} x2 runs, {} steps/run, {:.2} ms/run, {:.2} us/step, {} distinct schedules", steps / n, el * 1000.0 / (2*n) as f64, el*1e6/(2*steps) as f64, hashes.len());
    let _ = Arc::new(0);
}
