//! The explicit, serialisable description of one simulated scenario: stores, scripts for every
//! user callback, client threads and their operations, and the knobs of the run.

use serde::{Deserialize, Serialize};
use std::collections::BTreeMap;

pub type ActId = u32;
pub type EffId = u32;

/// State type of every simulated store: a hash chain over (action id, reducer tag).
#[derive(Clone, Debug, PartialEq, Eq, Default)]
pub struct St {
    /// number of reducer calls applied
    pub n: u32,
    /// hash chain
    pub h: u64,
    /// small selected value (for selector subscribers)
    pub sel: u8,
}

#[derive(Clone, Debug, PartialEq, Eq)]
pub struct Act {
    pub id: ActId,
}

pub fn mix(h: u64, act: ActId, red_tag: u32) -> u64 {
    let mut z = h ^ ((act as u64) << 32 | red_tag as u64).wrapping_mul(0x9E3779B97F4A7C15);
    z = (z ^ (z >> 30)).wrapping_mul(0xBF58476D1CE4E5B9);
    z = (z ^ (z >> 27)).wrapping_mul(0x94D049BB133111EB);
    z ^ (z >> 31)
}

#[derive(Serialize, Deserialize, Clone, Copy, Debug, PartialEq, Eq)]
pub enum Policy {
    Block,
    DropOldest,
    DropLatest,
}

#[derive(Serialize, Deserialize, Clone, Copy, Debug, PartialEq, Eq)]
pub enum Via {
    /// StoreImpl::dispatch (inherent)
    Impl,
    /// <dyn Store>::dispatch
    Trait,
    /// Dispatcher::dispatch on the Arc<StoreImpl>
    Disp,
    /// the dispatcher handed to a thunk
    Thunk,
}

#[derive(Serialize, Deserialize, Clone, Copy, Debug, PartialEq, Eq)]
pub enum Verdict {
    Continue,
    Done,
    Break,
    Err,
}

#[derive(Serialize, Deserialize, Clone, Debug, PartialEq)]
pub enum EffKind {
    Action(ActId),
    Task,
    Thunk(Vec<ActId>),
    Function,
    /// a task that stops ANOTHER store of the program from this store's pool thread
    StopOther { store: usize },
}

#[derive(Serialize, Deserialize, Clone, Debug, PartialEq)]
pub struct EffSpec {
    pub id: EffId,
    pub kind: EffKind,
    #[serde(default)]
    pub panic: bool,
    #[serde(default)]
    pub gate: Option<usize>,
    #[serde(default)]
    pub sleep_ms: u32,
}

#[derive(Serialize, Deserialize, Clone, Debug, PartialEq, Default)]
pub struct RedScript {
    #[serde(default)]
    pub keep: bool,
    #[serde(default)]
    pub eff: Option<EffSpec>,
    #[serde(default)]
    pub gate: Option<usize>,
    #[serde(default)]
    pub sleep_ms: u32,
}

#[derive(Serialize, Deserialize, Clone, Debug, PartialEq)]
pub struct MwScript {
    /// verdicts of before_reduce, before_effect, before_dispatch
    pub verdict: [Verdict; 3],
    /// positions removed from the effect vector in before_effect (applied in the given order)
    #[serde(default)]
    pub remove: Vec<usize>,
    /// read get_state() inside the hook
    #[serde(default)]
    pub read: [bool; 3],
    /// dispatch_thunk through the dispatcher argument of before_reduce
    #[serde(default)]
    pub thunk: Option<EffSpec>,
    /// dispatch this action synchronously through the dispatcher argument of before_reduce
    /// (only generated where the queue cannot be full, or under a drop policy)
    #[serde(default)]
    pub dispatch: Option<ActId>,
}

impl Default for MwScript {
    fn default() -> Self {
        MwScript { verdict: [Verdict::Continue; 3], remove: vec![], read: [false; 3], thunk: None, dispatch: None }
    }
}

#[derive(Serialize, Deserialize, Clone, Debug, PartialEq, Default)]
pub struct ActScript {
    #[serde(default)]
    pub sel: u8,
    /// by reducer tag
    #[serde(default)]
    pub red: BTreeMap<u32, RedScript>,
    /// by middleware tag
    #[serde(default)]
    pub mw: BTreeMap<u32, MwScript>,
}

#[derive(Serialize, Deserialize, Clone, Debug, PartialEq)]
pub enum SubKind {
    Direct,
    Selector,
    Channeled { cap: usize, policy: Policy },
}

#[derive(Serialize, Deserialize, Clone, Debug, PartialEq)]
pub struct SubCfg {
    pub kind: SubKind,
    #[serde(default)]
    pub read_state: bool,
    #[serde(default)]
    pub gate: Option<usize>,
    #[serde(default)]
    pub sleep_ms: u32,
    /// one subscriber object shared by several registrations (possibly on several stores)
    #[serde(default)]
    pub shared: bool,
    /// when told about this action, the subscriber unsubscribes registration `.1` (of another
    /// subscriber) from inside its callback
    #[serde(default)]
    pub unsub_other: Option<(ActId, usize)>,
    /// the subscriber forwards: told about action a (a key), it dispatches the mapped action to
    /// store `.0` through the Dispatcher interface, from inside its callback
    #[serde(default)]
    pub forward: Option<(usize, BTreeMap<ActId, ActId>)>,
}

impl Default for SubCfg {
    fn default() -> Self {
        SubCfg { kind: SubKind::Direct, read_state: false, gate: None, sleep_ms: 0, shared: false, unsub_other: None, forward: None }
    }
}

#[derive(Serialize, Deserialize, Clone, Debug, PartialEq)]
pub enum BCall {
    WithName(String),
    WithReducer(u32),
    WithReducers(Vec<u32>),
    AddReducer(u32),
    WithoutReducer,
    WithCapacity(usize),
    WithPolicy(Policy),
    WithMiddleware(u32),
    WithMiddlewares(Vec<u32>),
    AddMiddleware(u32),
}

#[derive(Serialize, Deserialize, Clone, Debug, PartialEq)]
pub struct StoreCfg {
    /// the builder call sequence (after StoreBuilder::new(initial state))
    pub builder: Vec<BCall>,
    /// wrap in a DroppableStore
    #[serde(default)]
    pub droppable: bool,
    /// the reducer (or, without reducers, middleware) with this tag takes one token from this
    /// gate before handling each action
    #[serde(default)]
    pub stepper: Option<(u32, usize)>,
    /// use StoreImpl::new_with_reducer-style constructors instead of the builder (0 = builder)
    #[serde(default)]
    pub ctor: u8,
}

#[derive(Serialize, Deserialize, Clone, Debug, PartialEq)]
pub enum Op {
    Dispatch { store: usize, act: ActId, via: Via },
    Thunk { store: usize, eff: EffSpec },
    Task { store: usize, eff: EffSpec },
    GetState { store: usize },
    GetMetrics { store: usize },
    AddSub { store: usize, sub: usize, reg: usize },
    Unsub { reg: usize },
    Iter { store: usize, it: usize },
    Next { it: usize, n: usize },
    Drain { it: usize },
    /// next() until a close()/stop()/drop of that store has been invoked by some client thread (or
    /// None comes): the consumer that is told to quit while the store is still working its backlog
    NextUntilShut { it: usize, store: usize },
    DropIter { it: usize },
    AddReducer { store: usize, tag: u32 },
    AddMiddleware { store: usize, tag: u32 },
    Close { store: usize },
    Stop { store: usize },
    DropStore { store: usize },
    /// drop this thread's view of the store handle table entry (outstanding clone goes away)
    Start { thread: usize },
    Join { thread: usize },
    Settle,
    Snap { tag: u32 },
    Open { gate: usize, n: u32 },
    Sleep { ms: u32 },
    Build { store: usize },
}

#[derive(Serialize, Deserialize, Clone, Debug, PartialEq)]
pub enum Sched {
    Uniform,
    Sticky(u32),
    Pct { d: u32, horizon: u64 },
}

#[derive(Serialize, Deserialize, Clone, Debug, PartialEq)]
pub struct Knobs {
    pub cpus: usize,
    pub sched: Sched,
    pub step_limit: u64,
    #[serde(default)]
    pub spurious_wake_pm: u32,
    #[serde(default)]
    pub weak_cas_pm: u32,
    #[serde(default)]
    pub spawn_fail_pm: u32,
}

#[derive(Serialize, Deserialize, Clone, Debug, PartialEq)]
pub struct Program {
    pub family: String,
    pub stores: Vec<StoreCfg>,
    pub subs: Vec<SubCfg>,
    pub regs: usize,
    pub iters: usize,
    pub gates: usize,
    /// thread 0 is the scenario's main thread
    pub threads: Vec<Vec<Op>>,
    pub acts: BTreeMap<ActId, ActScript>,
    pub knobs: Knobs,
    /// fault-injecting configuration (panicking effects, Err verdicts, buggify) or fault-free
    #[serde(default)]
    pub faulty: bool,
}

impl Program {
    pub fn hash(&self) -> u64 {
        let s = serde_json::to_string(self).unwrap();
        fnv(s.as_bytes())
    }
}

pub fn fnv(b: &[u8]) -> u64 {
    let mut h: u64 = 0xcbf29ce484222325;
    for &x in b {
        h ^= x as u64;
        h = h.wrapping_mul(0x100000001b3);
    }
    h
}

/// Resolved static view of a store's configuration after applying the builder calls with the
/// record-of-last-settings model (this is the reference model of C17).
#[derive(Clone, Debug, PartialEq)]
pub struct BuiltModel {
    pub ok: bool,
    pub name: String,
    pub capacity: usize,
    pub policy: Policy,
    pub reducers: Vec<u32>,
    pub middlewares: Vec<u32>,
    /// explicit holes: the model is silent about Ok/Err for this call sequence
    pub hole_ok: bool,
    /// ... or about which reducers are used
    pub hole_reducers: bool,
}

pub fn builder_model(calls: &[BCall]) -> BuiltModel {
    let mut name = "store".to_string();
    let mut capacity = 16usize;
    let mut policy = Policy::Block;
    let mut reducers: Vec<u32> = vec![];
    let mut middlewares: Vec<u32> = vec![];
    let mut without = false;
    let mut hole_ok = false;
    let hole_reducers = false;
    for c in calls {
        match c {
            BCall::WithName(n) => name = n.clone(),
            BCall::WithReducer(t) => {
                reducers = vec![*t];
                without = false;
            }
            BCall::WithReducers(v) => {
                if v.is_empty() && without {
                    hole_ok = true;
                }
                reducers = v.clone();
                without = false;
            }
            BCall::AddReducer(t) => reducers.push(*t),
            BCall::WithoutReducer => {
                // without_reducer() is an option of its own (a flag that permits an empty chain);
                // by option independence it does not touch the reducers configured so far, and a
                // later add_reducer() appends to them
                without = true;
            }
            BCall::WithCapacity(c) => capacity = *c,
            BCall::WithPolicy(p) => policy = *p,
            BCall::WithMiddleware(t) => middlewares = vec![*t],
            BCall::WithMiddlewares(v) => middlewares = v.clone(),
            BCall::AddMiddleware(t) => middlewares.push(*t),
        }
    }
    let ok = capacity != 0 && !name.is_empty() && (!reducers.is_empty() || without);
    BuiltModel { ok, name, capacity, policy, reducers, middlewares, hole_ok, hole_reducers }
}
