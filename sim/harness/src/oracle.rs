//! Property oracles: pure functions of the recorded history.

use crate::digest::*;
use crate::model::*;
use crate::world::*;

#[derive(Clone, Debug)]
pub struct Violation {
    pub prop: &'static str,
    pub clause: &'static str,
    pub detail: String,
    /// id of a finding signature this violation matches (F1...), if any
    pub known: Option<&'static str>,
}

fn v(out: &mut Vec<Violation>, prop: &'static str, clause: &'static str, detail: String) {
    out.push(Violation { prop, clause, detail, known: None });
}

pub fn check_all(d: &Digest) -> Vec<Violation> {
    let mut out = vec![];
    if !d.complete {
        // incomplete histories are judged by C13 only
        crate::oracle2::c13(d, &mut out);
        return out;
    }
    for s in 0..d.stores.len() {
        if d.stores[s].built != Some(true) {
            continue;
        }
        timed("c01", || c01(d, s, &mut out));
        timed("c02", || c02(d, s, &mut out));
        timed("c03", || c03(d, s, &mut out));
        timed("c07", || c07(d, s, &mut out));
        timed("c08", || c08(d, s, &mut out));
    }
    crate::oracle2::check_rest(d, &mut out);
    out
}

/// DEV_TIMING=1: print what each oracle costs (development aid; no effect on verdicts)
pub fn timed<R>(name: &str, f: impl FnOnce() -> R) -> R {
    static ON: std::sync::OnceLock<bool> = std::sync::OnceLock::new();
    if !*ON.get_or_init(|| std::env::var("DEV_TIMING").is_ok()) {
        return f();
    }
    let t = std::time::Instant::now();
    let r = f();
    eprintln!("  oracle {name}: {:?}", t.elapsed());
    r
}

/// tags expected in an instance for a registration list (build-time + run-time additions)
pub fn check_tags(
    d: &Digest,
    inst: &Inst,
    actual: &[u32],
    base: &[u32],
    added: &[(u32, usize)],
    s: usize,
) -> Result<(), String> {
    if actual.len() < base.len() || actual[..base.len()] != *base {
        return Err(format!("expected build-time order {:?}, got {:?}", base, actual));
    }
    let rest = &actual[base.len()..];
    let disp = d.dispatch_call_of(s, inst.act);
    for (i, t) in rest.iter().enumerate() {
        if rest[..i].contains(t) {
            return Err(format!("component {} called twice: {:?}", t, actual));
        }
        let Some((_, ci)) = added.iter().find(|a| a.0 == *t) else {
            return Err(format!("unknown component {} in {:?}", t, actual));
        };
        if d.calls[*ci].inv > inst.last {
            return Err(format!("component {} used before it was registered", t));
        }
    }
    for (t, ci) in added {
        let c = &d.calls[*ci];
        if let (Some(ret), Some(dc)) = (c.ret, disp) {
            if ret < dc.inv && !rest.contains(t) {
                return Err(format!(
                    "component {} registered before the dispatch is missing: {:?}",
                    t, actual
                ));
            }
        }
    }
    // order among additions whose registration calls were sequential
    for i in 0..rest.len() {
        for j in i + 1..rest.len() {
            let ci = added.iter().find(|a| a.0 == rest[i]).unwrap().1;
            let cj = added.iter().find(|a| a.0 == rest[j]).unwrap().1;
            if d.calls[cj].ret_or_max() < d.calls[ci].inv {
                return Err(format!("registration order not respected: {:?}", actual));
            }
        }
    }
    Ok(())
}

pub fn observable(sd: &SD) -> bool {
    !sd.model.reducers.is_empty() || !sd.model.middlewares.is_empty()
}

fn c01(d: &Digest, s: usize, out: &mut Vec<Violation>) {
    let sd = &d.stores[s];
    let pos = d.inst_positions(s);
    // (a) at most once, always
    for (a, p) in &pos {
        if p.len() > 1 {
            v(out, "C01", "a:at-most-once", format!("store {s}: action {a} reduced {} times", p.len()));
        }
        if d.act_store.get(a) != Some(&s) {
            v(out, "C01", "a:foreign-action", format!("store {s}: action {a} was never dispatched to it"));
        }
    }
    // (a) exactly once for accepted actions under the blocking policy
    if sd.model.policy == Policy::Block && (sd.clean_stop.is_some() || d.drained(s)) && observable(sd) && !sd.model.hole_reducers {
        for &ci in &sd.dispatches {
            let c = &d.calls[ci];
            if let (OpK::Dispatch { act, .. }, true) = (&c.op, c.ok()) {
                if !pos.contains_key(act) {
                    v(out, "C01", "a:accepted-not-reduced", format!("store {s}: action {act} accepted (Ok) but never reduced"));
                }
            }
        }
    }
    // (b) chain
    if !sd.model.hole_reducers {
        for inst in &sd.insts {
            let vetoed = d.vetoed(inst);
            let begins: Vec<(u32, u32, u64, usize)> = inst
                .evs
                .iter()
                .filter_map(|&i| match &d.ev[i].k {
                    K::RedB { tag, n, h, .. } => Some((*tag, *n, *h, i)),
                    _ => None,
                })
                .collect();
            let ends: Vec<(u32, u32, u64)> = inst
                .evs
                .iter()
                .filter_map(|&i| match &d.ev[i].k {
                    K::RedE { tag, n, h, .. } => Some((*tag, *n, *h)),
                    _ => None,
                })
                .collect();
            if vetoed {
                continue; // judged by C12
            }
            let tags: Vec<u32> = begins.iter().map(|b| b.0).collect();
            if let Err(e) = check_tags(d, inst, &tags, &sd.model.reducers, &sd.added_reducers, s) {
                v(out, "C01", "b:chain-membership", format!("store {s} action {}: {e}", inst.act));
                continue;
            }
            if begins.len() != ends.len() {
                v(out, "C01", "b:reducer-did-not-return", format!("store {s} action {}", inst.act));
                continue;
            }
            let mut cur = inst.before;
            for (k, b) in begins.iter().enumerate() {
                if (b.1, b.2) != cur {
                    v(
                        out,
                        "C01",
                        "b:chain-state",
                        format!(
                            "store {s} action {} reducer {} received state n={} h={:x}, expected n={} h={:x}",
                            inst.act, b.0, b.1, b.2, cur.0, cur.1
                        ),
                    );
                    break;
                }
                cur = (ends[k].1, ends[k].2);
            }
        }
    }
    // (c) get_state after a clean stop
    if let Some(cs) = sd.clean_stop {
        let ret = d.calls[cs].ret.unwrap();
        let fin = sd.insts.last().map(|i| i.after).unwrap_or((0, 0));
        for c in &d.calls {
            if let (OpK::GetState { store }, Some(Res::State { n, h, .. })) = (&c.op, &c.res) {
                if *store == s && c.inv > ret && (*n, *h) != fin {
                    v(
                        out,
                        "C01",
                        "c:final-state",
                        format!("store {s}: get_state after stop n={n} h={h:x}, last reduced state n={} h={:x}", fin.0, fin.1),
                    );
                }
            }
        }
    }
}

fn c02(d: &Digest, s: usize, out: &mut Vec<Violation>) {
    let sd = &d.stores[s];
    let pos = d.inst_positions(s);
    let ds: Vec<(&Call, ActId, usize)> = sd
        .dispatches
        .iter()
        .filter_map(|&ci| {
            let c = &d.calls[ci];
            if let OpK::Dispatch { act, .. } = &c.op {
                let p = pos.get(act)?;
                if p.len() == 1 {
                    return Some((c, *act, p[0]));
                }
            }
            None
        })
        .collect();
    for (a, aa, pa) in &ds {
        for (b, ab, pb) in &ds {
            if aa == ab {
                continue;
            }
            let prog_order = a.thr == b.thr && a.idx < b.idx;
            let rt_order = a.ret_or_max() < b.inv;
            if (prog_order || rt_order) && pa > pb {
                v(
                    out,
                    "C02",
                    if prog_order { "program-order" } else { "real-time-order" },
                    format!("store {s}: action {aa} dispatched before {ab} but reduced after it"),
                );
            }
        }
    }
}

/// direct subscribers registered for the whole run: (sub, reg, AddSub call)
pub fn whole_run_direct_subs(d: &Digest, s: usize) -> Vec<(usize, usize, usize)> {
    let sd = &d.stores[s];
    let first_dispatch = d
        .ev
        .iter()
        .position(|e| matches!(&e.k, K::Inv { op: OpK::Dispatch { store, .. }, .. } | K::Inv { op: OpK::Thunk { store, .. }, .. } if *store == s))
        .unwrap_or(usize::MAX);
    let stop_ret = d.end_of_store(s);
    let mut v = vec![];
    for (reg, (sub, st, ci)) in &d.regs {
        if *st != s || *d.sub_kind(*sub) != SubKind::Direct {
            continue;
        }
        if d.idx.nregs.get(sub) != Some(&1) {
            continue;
        }
        let c = &d.calls[*ci];
        if !(c.ok() && c.ret_or_max() < first_dispatch) {
            continue;
        }
        if let Some(fs) = sd.first_shutdown_inv {
            if c.inv > fs {
                continue;
            }
        }
        let unsub_before_stop = d.idx.unsub_calls.get(reg).map(|v| v.iter().any(|&u| stop_ret.map(|sr| d.calls[u].inv < sr).unwrap_or(true))).unwrap_or(false);
        if unsub_before_stop {
            continue;
        }
        v.push((*sub, *reg, *ci));
    }
    v
}

pub fn sub_log(d: &Digest, sub: usize) -> Vec<(ActId, u32, u64, u8, usize)> {
    d.idx.logs.get(&sub).cloned().unwrap_or_default()
}

fn c03(d: &Digest, s: usize, out: &mut Vec<Violation>) {
    let sd = &d.stores[s];
    if d.end_of_store(s).is_none() {
        return;
    }
    let subs = whole_run_direct_subs(d, s);
    for (sub, _reg, _ci) in &subs {
        let log: Vec<_> = sub_log(d, *sub).into_iter().filter(|x| d.act_store.get(&x.0) == Some(&s)).collect();
        let mut li = 0;
        for inst in &sd.insts {
            let exp = d.notify_exp(inst);
            let here = li < log.len() && log[li].0 == inst.act && log[li].4 >= inst.first && log[li].4 <= inst.last;
            match (exp, here) {
                (NotifyExp::Must, false) => {
                    v(out, "C03", "missed", format!("store {s}: subscriber {sub} was not notified of action {} (Dispatch)", inst.act));
                }
                (NotifyExp::MustNot, true) => {
                    v(out, "C03", "notified-on-keep-or-suppressed", format!("store {s}: subscriber {sub} was notified of action {}", inst.act));
                    li += 1;
                }
                (_, true) => {
                    if (log[li].1, log[li].2) != inst.after {
                        v(
                            out,
                            "C03",
                            "wrong-state",
                            format!(
                                "store {s}: subscriber {sub} got action {} with state n={} h={:x}, produced state n={} h={:x}",
                                inst.act, log[li].1, log[li].2, inst.after.0, inst.after.1
                            ),
                        );
                    }
                    li += 1;
                }
                _ => {}
            }
        }
        if li < log.len() {
            v(
                out,
                "C03",
                "extra-or-out-of-order",
                format!("store {s}: subscriber {sub} notification of action {} is duplicated or out of reduce order", log[li].0),
            );
        }
    }
    // registration order inside one action: any two direct subscribers (each registered once, at
    // any time, by anybody) that are told about the same action are called in the order of their
    // registration, where that order is settled (the first add_subscriber returned before the
    // second was invoked)
    let logs = &d.idx.logs;
    let nregs = &d.idx.nregs;
    // (a subscriber that was never notified of anything has no order to get wrong)
    let all_direct: Vec<(usize, usize, usize)> = d
        .regs
        .iter()
        .filter(|(_, (sub, st, ci))| *st == s && logs.contains_key(sub) && *d.sub_kind(*sub) == SubKind::Direct && nregs[sub] == 1 && d.calls[*ci].ok())
        .map(|(reg, (sub, _, ci))| (*sub, *reg, *ci))
        .collect();
    for (a, _, ca) in &all_direct {
        for (b, _, cb) in &all_direct {
            if d.calls[*ca].ret_or_max() < d.calls[*cb].inv {
                let la = &logs[a];
                let lb = &logs[b];
                for x in la {
                    if let Some(y) = lb.iter().find(|y| y.0 == x.0) {
                        if y.4 < x.4 {
                            v(out, "C03", "registration-order", format!("store {s}: subscriber {b} notified of {} before earlier-registered {a}", x.0));
                        }
                    }
                }
            }
        }
    }
}

fn c07(d: &Digest, s: usize, out: &mut Vec<Violation>) {
    let sd = &d.stores[s];
    // one thread
    let Some(rtid) = sd.rtid else { return };
    let mut open: Option<usize> = None;
    for inst in &sd.insts {
        for &i in &inst.evs {
            let e = &d.ev[i];
            if e.tid != rtid {
                v(
                    out,
                    "C07",
                    "one-context",
                    format!("store {s}: callback {:?} ran on thread {} but the reducer context is thread {}", e.k, e.tid, rtid),
                );
                return;
            }
            match &e.k {
                K::RedB { .. } | K::MwB { .. } | K::NotB { .. } => {
                    if let Some(o) = open {
                        v(out, "C07", "overlap", format!("store {s}: {:?} began before {:?} returned", e.k, d.ev[o].k));
                        return;
                    }
                    open = Some(i);
                }
                K::RedE { .. } | K::MwE { .. } | K::NotE { .. } => {
                    open = None;
                }
                _ => {}
            }
        }
    }
    // phase order inside an instance
    for inst in &sd.insts {
        let mut phase = 0u8;
        for &i in &inst.evs {
            let p = match &d.ev[i].k {
                K::MwB { hook: 0, .. } => 0,
                K::RedB { .. } => 1,
                K::MwB { hook: 1, .. } => 2,
                K::MwB { hook: 2, .. } => 3,
                K::NotB { .. } | K::SelCb { .. } => 4,
                _ => continue,
            };
            if p < phase {
                v(out, "C07", "phase-order", format!("store {s} action {}: {:?} after a later phase", inst.act, d.ev[i].k));
                break;
            }
            phase = p;
        }
        // middleware membership and order per phase
        for hook in 0..3u8 {
            let called: Vec<u32> = inst
                .evs
                .iter()
                .filter_map(|&i| match &d.ev[i].k {
                    K::MwB { tag, hook: h, .. } if *h == hook => Some(*tag),
                    _ => None,
                })
                .collect();
            let verdicts = d.hook_events(inst, hook);
            let broke = verdicts.iter().any(|x| x.1 == Verdict::Break as u8);
            let vetoed = d.vetoed(inst);
            let phase_required = match hook {
                0 => true,
                1 => !vetoed,
                _ => !vetoed && d.notify_exp(inst) == NotifyExp::Must,
            };
            if called.is_empty() && !phase_required {
                continue;
            }
            if called.is_empty() && sd.model.middlewares.is_empty() && sd.added_mws.is_empty() {
                continue;
            }
            if hook == 2 && called.is_empty() {
                // a before_dispatch Done is impossible here (nothing was called); required only
                // if subscribers were to be notified, which notify_exp says
            }
            if broke {
                // only a prefix is expected: compare the prefix that was called
                let n = called.len();
                let base: Vec<u32> = sd.model.middlewares.iter().cloned().take(n).collect();
                if called[..base.len().min(n)] != base[..] {
                    v(out, "C07", "middleware-order", format!("store {s} action {} hook {hook}: called {:?}, registered {:?}", inst.act, called, sd.model.middlewares));
                }
                continue;
            }
            if let Err(e) = check_tags(d, inst, &called, &sd.model.middlewares, &sd.added_mws, s) {
                v(out, "C07", "middleware-membership", format!("store {s} action {} hook {hook}: {e}", inst.act));
            }
        }
    }
    // reducers registered before the dispatch are in the pipeline (same membership rule as C01 b)
    if !sd.model.hole_reducers {
        for inst in &sd.insts {
            if d.vetoed(inst) {
                continue;
            }
            let tags: Vec<u32> = inst
                .evs
                .iter()
                .filter_map(|&i| match &d.ev[i].k {
                    K::RedB { tag, .. } => Some(*tag),
                    _ => None,
                })
                .collect();
            if let Err(e) = check_tags(d, inst, &tags, &sd.model.reducers, &sd.added_reducers, s) {
                v(out, "C07", "reducer-membership", format!("store {s} action {}: {e}", inst.act));
            }
        }
    }
    // direct subscribers registered before the dispatch (and not unsubscribed) are told
    // (every policy: the rule is about the actions that were reduced, not the discarded ones)
    if sd.clean_stop.is_some() {
        let tab = d.inst_table(s);
        for (reg, (sub, st, ci)) in &d.regs {
            if *st != s || *d.sub_kind(*sub) != SubKind::Direct || d.idx.nregs.get(sub) != Some(&1) {
                continue;
            }
            let add = &d.calls[*ci];
            let Some(add_ret) = add.ret else { continue };
            if !add.ok() {
                continue;
            }
            let u1 = d.idx.unsub_calls.get(reg).and_then(|v| v.iter().map(|&c| d.calls[c].inv).min());
            let log = sub_log(d, *sub);
            for (inst, (must, dc_inv, end_bound)) in sd.insts.iter().zip(&tab) {
                if !*must {
                    continue;
                }
                let Some(dc_inv) = *dc_inv else { continue };
                if add_ret >= dc_inv || u1.map(|u| u < *end_bound).unwrap_or(false) {
                    continue;
                }
                if !log.iter().any(|x| x.0 == inst.act) {
                    v(out, "C07", "subscriber-membership", format!("store {s}: subscriber {sub}, registered before action {} was dispatched, was left out of its pipeline", inst.act));
                }
            }
        }
    }
    // an action's callbacks never interleave with another's: instances are maximal runs, so a
    // split pipeline shows up as the same action in two instances (reported by C01 a) or as
    // a phase-order break above.
}

fn c08(d: &Digest, s: usize, out: &mut Vec<Violation>) {
    let sd = &d.stores[s];
    if sd.model.hole_reducers {
        return;
    }
    // final states by instance index (1-based; 0 = initial)
    let mut finals: Vec<((u32, u64), usize)> = vec![((0, 0), 0)];
    for inst in &sd.insts {
        // seq at which this state was produced: the last RedE of the instance (or its first event)
        let produced = d.red_ends(inst).last().map(|r| r.3).unwrap_or(inst.first);
        finals.push((inst.after, produced));
    }
    // intermediate outputs
    let mut partial: Vec<(u32, u64)> = vec![];
    for inst in &sd.insts {
        let re: Vec<(u32, u64)> = inst
            .evs
            .iter()
            .filter_map(|&i| match &d.ev[i].k {
                K::RedE { n, h, .. } => Some((*n, *h)),
                _ => None,
            })
            .collect();
        if re.len() > 1 {
            partial.extend_from_slice(&re[..re.len() - 1]);
        }
    }
    // reads: (inv, ret, value, inside notification of instance index?)
    struct R {
        inv: usize,
        ret: usize,
        val: (u32, u64),
        in_notify_of: Option<ActId>,
    }
    let mut reads: Vec<R> = vec![];
    for c in &d.calls {
        if let (OpK::GetState { store }, Some(Res::State { n, h, .. }), Some(ret)) = (&c.op, &c.res, c.ret) {
            if *store == s {
                reads.push(R { inv: c.inv, ret, val: (*n, *h), in_notify_of: None });
            }
        }
    }
    for (i, e) in d.ev.iter().enumerate() {
        if let K::Read { store, n, h, site } = &e.k {
            if *store != s {
                continue;
            }
            let mut of = None;
            if *site == 3 {
                // the NotB just before on the same thread
                for j in (0..i).rev() {
                    if d.ev[j].tid == e.tid {
                        if let K::NotB { act, .. } = &d.ev[j].k {
                            of = Some(*act);
                        }
                        break;
                    }
                }
            }
            reads.push(R { inv: i.saturating_sub(1), ret: i, val: (*n, *h), in_notify_of: of });
        }
    }
    let range = |val: (u32, u64)| -> Option<(usize, usize)> {
        let idx: Vec<usize> = finals.iter().enumerate().filter(|(_, f)| f.0 == val).map(|(i, _)| i).collect();
        if idx.is_empty() {
            None
        } else {
            Some((idx[0], *idx.last().unwrap()))
        }
    };
    let mut ranged: Vec<(usize, usize, usize, usize)> = vec![];
    for r in &reads {
        match range(r.val) {
            None => {
                let clause = if partial.contains(&r.val) { "partial-state" } else { "invented-state" };
                v(out, "C08", clause, format!("store {s}: get_state returned n={} h={:x} which is not the state left by any reduced action", r.val.0, r.val.1));
            }
            Some((lo, hi)) => {
                if finals[lo].1 > r.ret {
                    v(out, "C08", "from-the-future", format!("store {s}: get_state returned state n={} before it was produced", r.val.0));
                }
                if let Some(a) = r.in_notify_of {
                    if let Some(j) = sd.insts.iter().position(|x| x.act == a) {
                        if hi < j + 1 {
                            v(out, "C08", "published-before-notify", format!("store {s}: get_state inside the notification of action {a} returned an older state (n={})", r.val.0));
                        }
                    }
                }
                ranged.push((r.inv, r.ret, lo, hi));
            }
        }
    }
    for a in &ranged {
        for b in &ranged {
            if a.1 < b.0 && a.2 > b.3 {
                v(out, "C08", "monotonic", format!("store {s}: a later get_state returned an older state (instance {} then {})", a.2, b.3));
                return;
            }
        }
    }
}
