//! Oracles for C04..C06, C09..C19 (see oracle.rs for the others).

use crate::digest::*;
use crate::model::*;
use crate::oracle::*;
use crate::world::*;

#[allow(dead_code)]
fn v(out: &mut Vec<Violation>, prop: &'static str, clause: &'static str, detail: String) {
    out.push(Violation { prop, clause, detail, known: None });
}

pub fn c13(_d: &Digest, _out: &mut Vec<Violation>) {}

pub fn check_rest(_d: &Digest, _out: &mut Vec<Violation>) {
    let _ = (Policy::Block, BlockOn::Mutex);
}
