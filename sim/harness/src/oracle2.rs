//! Oracles for C04..C06, C09..C19 (see oracle.rs for the others).

use crate::digest::*;
use crate::model::*;
use crate::oracle::*;
use crate::world::*;

fn v(out: &mut Vec<Violation>, prop: &'static str, clause: &'static str, detail: String) {
    out.push(Violation { prop, clause, detail, known: None });
}

fn vk(out: &mut Vec<Violation>, prop: &'static str, clause: &'static str, detail: String, known: &'static str) {
    out.push(Violation { prop, clause, detail, known: Some(known) });
}

pub fn check_rest(d: &Digest, out: &mut Vec<Violation>) {
    for s in 0..d.stores.len() {
        if d.stores[s].built != Some(true) {
            continue;
        }
        use crate::oracle::timed;
        timed("c04", || c04(d, s, out));
        timed("c05_c06", || crate::oracle3::c05_c06(d, s, out));
        timed("c18", || crate::oracle3::c18(d, s, out));
        timed("c09_c10", || crate::oracle4::c09_c10(d, s, out));
        timed("c14", || crate::oracle4::c14(d, s, out));
        timed("c16", || crate::oracle4::c16(d, s, out));
        timed("c11", || crate::oracle5::c11(d, s, out));
        timed("c12", || crate::oracle5::c12(d, s, out));
    }
    crate::oracle::timed("c17", || crate::oracle5::c17(d, out));
    crate::oracle::timed("shared", || crate::oracle4::shared_subscribers(d, out));
    crate::oracle::timed("c13", || c13_complete(d, out));
}

/// events that count as "a reducer, middleware or subscriber callback of store s"
fn callback_of_store(d: &Digest, s: usize, e: &Ev, stop_inv: usize) -> bool {
    match &e.k {
        K::RedB { store, .. } | K::RedE { store, .. } | K::MwB { store, .. } | K::MwE { store, .. } | K::MwErr { store, .. } => *store == s,
        K::NotB { act, .. } | K::NotE { act, .. } | K::SelCb { act, .. } => d.act_store.get(act) == Some(&s),
        K::Unsub { sub } => d.regs.values().any(|(sb, st, ci)| sb == sub && *st == s && d.calls[*ci].ret_or_max() < stop_inv)
            && !d.regs.values().any(|(sb, st, _)| sb == sub && *st != s),
        _ => false,
    }
}

fn c04(d: &Digest, s: usize, out: &mut Vec<Violation>) {
    let sd = &d.stores[s];
    let pos = d.inst_positions(s);
    // (e) Err => never reduced, every policy
    for &ci in &sd.dispatches {
        let c = &d.calls[ci];
        if let (OpK::Dispatch { act, .. }, Some(Res::Err)) = (&c.op, &c.res) {
            if pos.contains_key(act) {
                v(out, "C04", "e:err-but-reduced", format!("store {s}: dispatch of action {act} returned Err but the action was reduced"));
            }
        }
    }
    // (c) holds after ANY stop()/drop that returned, timed out or not: the queue was closed first
    let first_returned = sd
        .shutdowns
        .iter()
        .map(|&c| &d.calls[c])
        .filter(|c| matches!(c.op, OpK::Stop { .. } | OpK::DropStore { .. }) && c.ret.is_some())
        .min_by_key(|c| c.ret.unwrap());
    if let (Some(x0), None) = (first_returned, sd.clean_stop) {
        let p0: &'static str = if matches!(x0.op, OpK::DropStore { .. }) { "C15" } else { "C04" };
        let r0 = x0.ret.unwrap();
        for &ci in &sd.dispatches {
            let c = &d.calls[ci];
            if c.inv > r0 {
                if let OpK::Dispatch { act, via, .. } = &c.op {
                    if c.res != Some(Res::Err) {
                        v(out, p0, "c:dispatch-after-stop-accepted", format!("store {s}: dispatch of {act} via {via:?} after stop()/drop had returned gave {:?}", c.res));
                    }
                }
            }
        }
    }
    let Some(xi) = sd.clean_stop else { return };
    let x = &d.calls[xi];
    let xret = x.ret.unwrap();
    let prop: &'static str = if matches!(x.op, OpK::DropStore { .. }) { "C15" } else { "C04" };
    // (a) + (e Ok): accepted under the blocking policy => completely processed before stop returned
    if sd.model.policy == Policy::Block && observable(sd) && !sd.model.hole_reducers {
        for &ci in &sd.dispatches {
            let c = &d.calls[ci];
            if let (OpK::Dispatch { act, .. }, true) = (&c.op, c.ok()) {
                if c.inv > xret {
                    continue;
                }
                match pos.get(act) {
                    None => v(out, prop, "a:accepted-not-processed", format!("store {s}: action {act} was accepted (Ok) before stop() returned but never processed")),
                    Some(p) => {
                        let inst = &sd.insts[p[0]];
                        if inst.last > xret {
                            v(out, prop, "a:processed-after-stop", format!("store {s}: action {act} accepted before stop() returned was still being processed after it"));
                        }
                    }
                }
            }
        }
    }
    // (b) nothing runs afterwards
    for e in &d.ev[xret..] {
        if callback_of_store(d, s, e, sd.first_shutdown_inv.unwrap_or(x.inv).min(x.inv)) {
            v(out, prop, "b:callback-after-stop", format!("store {s}: {:?} after stop() had returned", e.k));
            break;
        }
    }
    // (c) dispatch after stop is rejected
    for &ci in &sd.dispatches {
        let c = &d.calls[ci];
        if c.inv > xret {
            if let OpK::Dispatch { act, via, .. } = &c.op {
                if c.res != Some(Res::Err) {
                    v(out, prop, "c:dispatch-after-stop-accepted", format!("store {s}: dispatch of {act} via {via:?} after stop() returned {:?}", c.res));
                }
                if pos.contains_key(act) {
                    v(out, prop, "c:dispatch-after-stop-reduced", format!("store {s}: action {act} dispatched after stop() was reduced"));
                }
            }
        }
    }
    // (d) later stop() calls return immediately
    for &ci in &sd.shutdowns {
        let c = &d.calls[ci];
        if c.inv > xret && matches!(c.op, OpK::Stop { .. }) {
            let end = c.ret.unwrap_or(d.ev.len());
            let waited = d.ev[c.inv..end].iter().any(|e| {
                e.tid == c.tid
                    && match &e.k {
                        K::Timer { .. } => true,
                        K::Block { on } => !matches!(on, BlockOn::Mutex),
                        _ => false,
                    }
            });
            if waited {
                v(out, prop, "d:later-stop-waits", format!("store {s}: a stop() call after the store had stopped did not return immediately"));
            }
        }
    }
    // C15: the remaining clones see the final state (C01 c covers the value; attribute here too)
    if prop == "C15" {
        let fin = sd.insts.last().map(|i| i.after).unwrap_or((0, 0));
        if !sd.model.hole_reducers {
            for c in &d.calls {
                if let (OpK::GetState { store }, Some(Res::State { n, h, .. })) = (&c.op, &c.res) {
                    if *store == s && c.inv > xret && (*n, *h) != fin {
                        v(out, "C15", "clone-sees-final-state", format!("store {s}: get_state on a clone after drop returned n={n}, final n={}", fin.0));
                    }
                }
            }
        }
    }
}

pub fn prog_has_stalls(p: &Program) -> bool {
    p.gates > 0
        || p.subs.iter().any(|s| s.sleep_ms > 0)
        || p.acts.values().any(|a| {
            a.red.values().any(|r| r.sleep_ms > 0 || r.eff.as_ref().map(|e| e.sleep_ms > 0).unwrap_or(false))
                || a.mw.values().any(|m| m.thunk.as_ref().map(|e| e.sleep_ms > 0).unwrap_or(false))
        })
        || p.threads.iter().flatten().any(|o| match o {
            Op::Thunk { eff, .. } | Op::Task { eff, .. } => eff.sleep_ms > 0,
            Op::Sleep { ms } => *ms > 0,
            _ => false,
        })
}

/// Finding F4's signature for a thread `tid` that is blocked sending on the queue of iterator `it`:
/// the iterator was dropped before it had returned None and EITHER that drop never returned (the
/// dropping thread hangs on its own Exit send, or behind whoever does) OR the blocked thread is a
/// reducer working on an action it took from the dispatch queue before the drop returned (it
/// copied the subscriber list while the iterator was still in it).  A reducer that took the action
/// after drop() had returned must not know the iterator any more: that is not F4.
fn f4_signature(d: &Digest, tid: usize, it: usize) -> bool {
    d.calls.iter().any(|x| {
        if !matches!(x.op, OpK::DropIter { it: i } if i == it) || x.res == Some(Res::Skipped) {
            return false;
        }
        if d.ev[..x.inv].iter().any(|e| matches!(&e.k, K::NextR { it: i, item: None } if *i == it)) {
            return false;
        }
        let Some(ret) = x.ret else { return true };
        match d.stores.iter().find(|sd| sd.rtid == Some(tid)) {
            Some(sd) => {
                let last_take = d.ev.iter().rposition(|e| e.tid == tid && matches!(&e.k, K::ChRecv { chan, .. } if Some(*chan) == sd.dchan));
                last_take.map(|t| t < ret).unwrap_or(true)
            }
            None => false,
        }
    })
}

/// C13 on runs that did not complete
pub fn c13(d: &Digest, out: &mut Vec<Violation>) {
    match d.run.out.end {
        simrt::End::Deadlock => {}
        simrt::End::StepLimit => {
            // The programs are small (a few hundred scheduling steps); a run that is still going
            // after tens of thousands of steps has a thread that keeps running without getting
            // anywhere - a retry loop that cannot succeed, a poll that never sees its condition.
            // On the unchanged tree no run comes near the limit.
            let last = d.ev.iter().rev().take(200).map(|e| e.tid).collect::<std::collections::BTreeSet<_>>();
            v(out, "C13", "livelock", format!("the run did not end within {} scheduling steps (a call that never returns because some thread spins); threads active at the end: {:?}", d.run.out.steps, last));
            return;
        }
        _ => return,
    }
    let blocked: Vec<String> = d
        .run
        .out
        .blocked
        .iter()
        .map(|b| match b.holder {
            Some(h) => format!("t{}({}) on {:?} held by t{h}", b.tid, b.name.clone().unwrap_or_default(), BlockOn::from(b.obj)),
            None => format!("t{}({}) on {:?}", b.tid, b.name.clone().unwrap_or_default(), BlockOn::from(b.obj)),
        })
        .collect();
    // signatures of the listed findings.  Each has a precise form in terms of the channel seam (the
    // thread is blocked on the iterator's own queue) and, for trees in which that queue is no longer
    // a crossbeam channel (the thread then shows as blocked on a condition variable), a form in
    // terms of the client call it is inside.
    let first_shutdown = d.stores.iter().filter_map(|s| s.first_shutdown_inv).min();
    // the iterator whose next() this thread is inside
    let in_next = |tid: usize| -> Option<usize> {
        d.ev.iter()
            .rev()
            .filter(|e| e.tid == tid)
            .find_map(|e| match &e.k {
                K::NextB { it } => Some(Some(*it)),
                K::NextR { .. } => Some(None),
                _ => None,
            })
            .flatten()
    };
    let iters_of = |store: usize| -> Vec<usize> {
        d.calls.iter().filter_map(|c| match c.op { OpK::Iter { store: s, it } if s == store => Some(it), _ => None }).collect()
    };
    for b in &d.run.out.blocked {
        let on = BlockOn::from(b.obj);
        let on_channel = matches!(on, BlockOn::ChanSend(_) | BlockOn::ChanRecv(_));
        // F4: an iterator dropped before it returned None, somebody blocked sending on its queue
        let mut f4 = d.iter_chan.iter().any(|(it, ch)| on == BlockOn::ChanSend(*ch) && f4_signature(d, b.tid, *it));
        if !f4 && !on_channel {
            // (no channel to go by) the dropping thread itself never came back from the drop ...
            f4 = d.calls.iter().any(|x| x.tid == b.tid && x.ret.is_none() && matches!(x.op, OpK::DropIter { it } if f4_signature(d, b.tid, it)));
            // ... or a reducer is stuck while an iterator of its store was dropped early
            if !f4 && on == BlockOn::Condvar {
                if let Some(sd) = d.stores.iter().find(|sd| sd.rtid == Some(b.tid)) {
                    f4 = iters_of(sd.idx).into_iter().any(|it| f4_signature(d, b.tid, it));
                }
            }
        }
        if f4 {
            vk(out, "C13", "deadlock", format!("dropping an unexhausted iterator hung: {}", blocked.join("; ")), "F4");
            return;
        }
        // F7: next() on an iterator that was registered after the reducer loop had released
        // its subscribers: iter() had not returned when the reducer took its last item from
        // the dispatch queue (the shutdown marker), and the reducer loop is over
        let it7 = match d.iter_chan.iter().find(|(_, ch)| on == BlockOn::ChanRecv(**ch)) {
            Some((it, _)) => Some(*it),
            None if !on_channel => in_next(b.tid),
            None => None,
        };
        if let Some(it) = it7 {
            let ic = d.calls.iter().find(|c| matches!(c.op, OpK::Iter { it: i, .. } if i == it));
            if let (Some(ic), Some(fs)) = (ic, first_shutdown) {
                let OpK::Iter { store, .. } = ic.op else { continue };
                let sd = &d.stores[store];
                let last_take = sd.rtid.and_then(|rt| d.ev.iter().rposition(|e| e.tid == rt && matches!(&e.k, K::ChRecv { chan, .. } if Some(*chan) == sd.dchan)));
                let loop_over = match sd.rtid {
                    Some(rt) => !d.run.out.blocked.iter().any(|x| x.tid == rt && !matches!(BlockOn::from(x.obj), BlockOn::ChanRecv(c) if Some(c) == sd.pool_chan)),
                    None => true,
                };
                if ic.ret_or_max() > fs && ic.ret_or_max() > last_take.unwrap_or(0) && loop_over {
                    vk(out, "C13", "deadlock", format!("next() on an iterator created during/after shutdown hung: {}", blocked.join("; ")), "F7");
                    return;
                }
            }
        }
    }
    // F8: shutdown releases an iterator (blocking Exit send on its full queue) while holding the
    // subscriber list, and that iterator's own consumer thread is inside a call that needs the list
    if first_shutdown.is_some() {
        for sd in &d.stores {
            let Some(rt) = sd.rtid else { continue };
            let Some(rb) = d.run.out.blocked.iter().find(|b| b.tid == rt) else { continue };
            // blocked on an iterator's queue (or, where that queue is no channel, on a condition variable)
            let its: Vec<(usize, Option<u32>)> = match BlockOn::from(rb.obj) {
                BlockOn::ChanSend(ch) => d.iter_chan.iter().filter(|(_, c)| **c == ch).map(|(it, c)| (*it, Some(*c))).collect(),
                BlockOn::Condvar => iters_of(sd.idx).into_iter().map(|it| (it, None)).collect(),
                _ => continue,
            };
            for (it, ch) in its {
            let it = &it;
            // the thread that made the latest next() call on that iterator
            let consumer = d.ev.iter().rev().find_map(|e| match &e.k {
                K::NextB { it: i } if i == it => Some(e.tid),
                _ => None,
            });
            let stuck_consumer = d.run.out.blocked.iter().any(|b| Some(b.tid) == consumer && matches!(BlockOn::from(b.obj), BlockOn::Mutex) && b.holder == Some(rt));
            // the reducer must be past its last pipeline: nothing reducer-side happened after
            // its final take from the dispatch queue (the shutdown marker)
            let last_take = d.ev.iter().rposition(|e| e.tid == rt && matches!(&e.k, K::ChRecv { chan, .. } if Some(*chan) == sd.dchan));
            let in_pipeline = match last_take {
                Some(t) => d.ev[t..].iter().any(|e| {
                    e.tid == rt
                        && matches!(&e.k, K::RedB { .. } | K::RedE { .. } | K::MwB { .. } | K::MwE { .. } | K::NotB { .. } | K::NotE { .. } | K::SelCb { .. })
                }),
                None => true,
            };
            // ... or it already delivered this action to that iterator (one send per action):
            // a second send can only be the shutdown marker (the dispatch queue may have ended
            // by disconnection, without a marker being taken)
            let sends_since = d.ev[last_take.unwrap_or(0)..].iter().filter(|e| e.tid == rt && matches!(&e.k, K::ChSend { chan, .. } if Some(*chan) == ch)).count();
            // (no dispatch queue or iterator queue to go by: the tree under test does not use channels for them)
            let in_pipeline = in_pipeline && sd.dchan.is_some() && ch.is_some();
            // ... or the last action it processed does not notify at all (Keep / suppressed)
            let last_silent = sd.insts.last().map(|i| d.notify_exp(i) == NotifyExp::MustNot).unwrap_or(false);
            if stuck_consumer && (!in_pipeline || sends_since >= 1 || last_silent) {
                vk(out, "C13", "deadlock", format!("shutdown holds the subscriber list while waiting for an iterator whose consumer needs the list: {}", blocked.join("; ")), "F8");
                return;
            }
            }
        }
    }
    v(out, "C13", "deadlock", format!("no thread can run: {}", blocked.join("; ")));
    // a dispatch() under the blocking policy that never returns is also C05's business: the
    // caller must resume as soon as the reducer makes room, and the reducer must keep making room
    for sd in &d.stores {
        if sd.model.policy != Policy::Block {
            continue;
        }
        if let Some(c) = sd.dispatches.iter().map(|&c| &d.calls[c]).find(|c| c.ret.is_none()) {
            if let OpK::Dispatch { act, .. } = c.op {
                v(out, "C05", "dispatch-never-resumed", format!("store {}: dispatch of action {act} under BlockOnFull never returned: {}", sd.idx, blocked.join("; ")));
                break;
            }
        }
    }
}

fn c13_complete(d: &Digest, out: &mut Vec<Violation>) {
    if d.run.out.end == simrt::End::Leaked {
        let stuck: Vec<String> = d
            .run
            .out
            .blocked
            .iter()
            .filter(|b| b.name.as_deref().map(|n| n.starts_with("client-")).unwrap_or(false))
            .map(|b| format!("t{}({}) on {:?}", b.tid, b.name.clone().unwrap_or_default(), BlockOn::from(b.obj)))
            .collect();
        if !stuck.is_empty() {
            v(out, "C13", "deadlock", format!("client call never returned: {}", stuck.join("; ")));
        }
    }
    // stop() completed because its timeout expired although nothing was scripted to stall
    if prog_has_stalls(d.prog) {
        return;
    }
    for sd in &d.stores {
        for &ci in &sd.shutdowns {
            let c = &d.calls[ci];
            if matches!(c.op, OpK::Stop { .. } | OpK::DropStore { .. }) && d.timer_in_call(c) {
                // finding F4, second face: the reducer is stuck sending to an iterator that was
                // dropped before it was exhausted (its queue never disconnects)
                let f4 = d.run.out.blocked.iter().any(|b| {
                    d.iter_chan.iter().any(|(it, ch)| BlockOn::from(b.obj) == BlockOn::ChanSend(*ch) && f4_signature(d, b.tid, *it))
                        || (BlockOn::from(b.obj) == BlockOn::Condvar
                            && sd.rtid == Some(b.tid)
                            && d.calls.iter().any(|c| matches!(c.op, OpK::Iter { store, it } if store == sd.idx && f4_signature(d, b.tid, it))))
                });
                if f4 {
                    out.push(Violation { prop: "C13", clause: "stop-rescued-by-timeout", detail: format!("store {}: the reducer is blocked on the queue of a dropped iterator; stop() timed out", sd.idx), known: Some("F4") });
                    return;
                }
                // known: an unexhausted, undropped iterator blocks the reducer by design of iter()
                v(out, "C13", "stop-rescued-by-timeout", format!("store {}: stop() returned only because its timeout expired", sd.idx));
                return;
            }
        }
    }
}
