//! Oracles C05, C06 (backpressure) and C18 (metrics).

use crate::digest::*;
use crate::model::*;
use crate::oracle::*;
use crate::world::*;
use std::collections::VecDeque;

fn v(out: &mut Vec<Violation>, prop: &'static str, clause: &'static str, detail: String) {
    out.push(Violation { prop, clause, detail, known: None });
}

/// all dispatches to store s come from the scenario's main thread, the store has a stepper
pub fn deterministic_bp(d: &Digest, s: usize) -> bool {
    (d.prog.family == "bp" || d.prog.family == "build")
        && d.prog.stores[s].stepper.is_some()
        && d.stores[s].dispatches.iter().all(|&c| d.calls[c].thr == 0)
        && !d.prog.acts.values().any(|a| a.red.values().any(|r| r.eff.is_some()))
}

pub fn final_metrics(d: &Digest, s: usize) -> Option<MetricsLite> {
    final_metrics_at(d, s).map(|x| x.0)
}

pub fn final_metrics_at(d: &Digest, s: usize) -> Option<(MetricsLite, usize, usize)> {
    let x = d.stores[s].clean_stop?;
    let xret = d.calls[x].ret?;
    d.calls
        .iter()
        .filter(|c| matches!(c.op, OpK::GetMetrics { store } if store == s) && c.inv > xret)
        .filter_map(|c| match &c.res {
            Some(Res::Metrics(m)) => Some((m.clone(), c.inv, c.ret_or_max())),
            _ => None,
        })
        .last()
}

pub fn c05_c06(d: &Digest, s: usize, out: &mut Vec<Violation>) {
    let sd = &d.stores[s];
    let Some(dch) = sd.dchan else { return };
    let block = sd.model.policy == Policy::Block;
    let prop: &'static str = if block { "C05" } else { "C06" };
    let cap = sd.model.capacity;
    // the queue is created with exactly the configured capacity
    if sd.dchan_cap != Some(cap) {
        v(out, prop, "queue-capacity", format!("store {s}: dispatch queue created with capacity {:?}, configured {}", sd.dchan_cap, cap));
    }
    let pos = d.inst_positions(s);
    if block {
        // online bound: accepted (returned Ok) minus taken never exceeds the capacity
        let mut accepted = 0i64;
        let mut taken = 0i64;
        let mut len = 0usize;
        // "taken by the reducer" seen from outside: the action's pipeline has begun (its first
        // reducer-context callback).  One action may be in between (out of the queue, pipeline not
        // yet begun).  Only meaningful where every action has some scripted callback.
        let by_callbacks = observable(sd) && !sd.model.hole_reducers;
        let mut firsts: Vec<usize> = sd.insts.iter().map(|i| i.first).collect();
        firsts.sort();
        let mut started = 0usize;
        for (i, e) in d.ev.iter().enumerate() {
            while started < firsts.len() && firsts[started] <= i {
                started += 1;
            }
            match &e.k {
                K::Ret { thr, idx, res: Res::Ok } => {
                    if sd.dispatches.iter().any(|&c| d.calls[c].thr == *thr && d.calls[c].idx == *idx && d.calls[c].ret == Some(i)) {
                        accepted += 1;
                    }
                }
                K::ChRecv { chan, len: l } if *chan == dch => {
                    taken += 1;
                    len = *l;
                }
                K::ChSend { chan, len: l } if *chan == dch => len = *l,
                K::Snap { blocked, .. } => {
                    // a settled snapshot: whoever is still inside dispatch() must be waiting for room,
                    // and the queue must then be exactly full
                    let pending: Vec<&Call> = sd
                        .dispatches
                        .iter()
                        .map(|&c| &d.calls[c])
                        .filter(|c| c.inv < i && c.ret_or_max() > i)
                        .collect();
                    let closing = sd.shutdowns.iter().any(|&c| d.calls[c].inv < i && d.calls[c].ret_or_max() > i);
                    if !pending.is_empty() && !closing {
                        // the reducer is parked inside a pipeline, the queue is full: exactly `cap`
                        // accepted actions have not begun
                        if by_callbacks && accepted - started as i64 != cap as i64 {
                            v(out, "C05", "bound", format!("store {s}: at quiescence with dispatches waiting, {} accepted actions have not begun, capacity {cap}", accepted - started as i64));
                        }
                        if len != cap {
                            v(out, "C05", "blocked-while-room", format!("store {s}: {} dispatch call(s) still waiting at quiescence while the queue holds {len} of {cap}", pending.len()));
                        }
                        // (what primitive the waiting callers sleep on is the implementation's
                        // business: a full queue is reason enough to wait, whatever they wait on)
                    }
                }
                _ => {}
            }
            if by_callbacks && accepted - started as i64 > cap as i64 + 1 {
                v(out, "C05", "bound", format!("store {s}: {} actions accepted whose processing has not begun, capacity {cap}", accepted - started as i64));
                break;
            }
            if accepted - taken > cap as i64 {
                v(out, "C05", "bound", format!("store {s}: {} actions accepted but not yet taken by the reducer, capacity {cap}", accepted - taken));
                break;
            }
        }
        // lossless
        // lossless, eventually: also when a stop() gave up after its timeout and the stalled
        // reducer drained the queue afterwards
        if (sd.clean_stop.is_some() || d.drained(s)) && observable(sd) && !sd.model.hole_reducers {
            for &ci in &sd.dispatches {
                let c = &d.calls[ci];
                if let (OpK::Dispatch { act, .. }, true) = (&c.op, c.ok()) {
                    if !pos.contains_key(act) {
                        v(out, "C05", "accepted-lost", format!("store {s}: action {act} accepted under BlockOnFull was never reduced"));
                    }
                }
            }
        }
        if let Some(m) = final_metrics(d, s) {
            if m.dropped != 0 && !d.has_lossy_channeled(s) {
                v(out, "C05", "dropped-under-block", format!("store {s}: dropped-actions metric is {} under BlockOnFull", m.dropped));
            }
        }
        return;
    }
    // ---- drop policies ----
    // never blocks on the queue
    for &ci in &sd.dispatches {
        let c = &d.calls[ci];
        let end = c.ret.unwrap_or(d.ev.len());
        if d.ev[c.inv..end].iter().any(|e| e.tid == c.tid && matches!(&e.k, K::Block { on: BlockOn::ChanSend(ch) } if *ch == dch)) {
            v(out, "C06", "dispatch-blocked", format!("store {s}: a dispatch waited on the full queue under a drop policy"));
            break;
        }
    }
    // a drop policy discards only when the queue is full: every discard is preceded, inside the
    // same dispatch call, by the queue refusing the new item as full
    {
        let fs0 = sd.first_shutdown_inv.unwrap_or(usize::MAX);
        for &ci in &sd.dispatches {
            let c = &d.calls[ci];
            let Some(ret) = c.ret else { continue };
            if ret >= fs0 {
                continue;
            }
            let saw_full = d.ev[c.inv..ret].iter().any(|e| e.tid == c.tid && matches!(&e.k, K::ChFull { chan } if *chan == dch));
            let popped = d.ev[c.inv..ret].iter().any(|e| e.tid == c.tid && matches!(&e.k, K::ChRecv { chan, .. } if *chan == dch));
            let sent = d.ev[c.inv..ret].iter().any(|e| e.tid == c.tid && matches!(&e.k, K::ChSend { chan, .. } if *chan == dch));
            if let OpK::Dispatch { act, .. } = c.op {
                // DropOldest discards the oldest "to admit the new one": the new action always
                // enters the queue (producers are serialised, the reducer only makes room)
                if sd.model.policy == Policy::DropOldest && !sent {
                    v(out, "C06", "new-action-not-admitted", format!("store {s} (DropOldest): dispatch of {act} returned without the action having entered the queue"));
                    break;
                }
                if (popped || !sent) && !saw_full {
                    v(out, "C06", "discarded-while-room", format!("store {s} ({:?}): dispatch of {act} discarded something although the queue never refused the new item as full", sd.model.policy));
                    break;
                }
            }
        }
    }
    let Some(xi) = sd.clean_stop else { return };
    let _ = xi;
    if !observable(sd) || sd.model.hole_reducers {
        return;
    }
    let fs = sd.first_shutdown_inv.unwrap_or(usize::MAX);
    let open: Vec<&Call> = sd.dispatches.iter().map(|&c| &d.calls[c]).filter(|c| c.ret_or_max() < fs).collect();
    let ambiguous: Vec<&Call> = sd
        .dispatches
        .iter()
        .map(|&c| &d.calls[c])
        .filter(|c| c.ret_or_max() >= fs)
        .collect();
    let act_of = |c: &Call| match c.op {
        OpK::Dispatch { act, .. } => act,
        _ => 0,
    };
    // DropLatest through the Dispatcher interface: Err exactly for the discarded actions
    if sd.model.policy == Policy::DropLatest {
        for c in &open {
            if let OpK::Dispatch { act, via: Via::Disp | Via::Thunk, .. } = c.op {
                let reduced = pos.contains_key(&act);
                if c.ok() && !reduced {
                    v(out, "C06", "droplatest-ok-but-discarded", format!("store {s}: Dispatcher::dispatch of {act} returned Ok but the action was discarded"));
                }
            }
        }
    }
    // conservation with the dropped-actions metric
    let no_followups = !d.prog.acts.values().any(|a| a.red.values().any(|r| matches!(r.eff.as_ref().map(|e| &e.kind), Some(EffKind::Action(_)))));
    if let (Some(m), false, true) = (final_metrics(d, s), d.has_lossy_channeled(s), no_followups) {
        let lost_open = open.iter().filter(|c| !pos.contains_key(&act_of(c))).count();
        let lost_amb = ambiguous.iter().filter(|c| !pos.contains_key(&act_of(c))).count();
        // dispatches issued by thunks have calls too (Via::Thunk) and are in `dispatches`
        if m.dropped < lost_open || m.dropped > lost_open + lost_amb {
            v(
                out,
                "C06",
                "conservation",
                format!(
                    "store {s}: {} actions dispatched while open were not reduced (+{} racing shutdown) but the dropped-actions metric is {}",
                    lost_open, lost_amb, m.dropped
                ),
            );
        }
    }
    // exact survivors when the scenario is a deterministic controller script
    if deterministic_bp(d, s) {
        let (_, gate) = d.prog.stores[s].stepper.unwrap();
        let mut held: Option<ActId> = None;
        let mut q: VecDeque<ActId> = VecDeque::new();
        let mut tokens: u64 = 0;
        let mut red: Vec<ActId> = vec![];
        let mut dropped = 0usize;
        let mut closed = false;
        let mut progress = |held: &mut Option<ActId>, q: &mut VecDeque<ActId>, tokens: &mut u64, red: &mut Vec<ActId>| loop {
            if held.is_none() {
                match q.pop_front() {
                    Some(a) => {
                        *held = Some(a);
                        red.push(a);
                    }
                    None => break,
                }
            }
            if *tokens > 0 {
                *tokens -= 1;
                *held = None;
            } else {
                break;
            }
        };
        for (idx, op) in d.prog.threads[0].iter().enumerate() {
            let call = d.calls.iter().find(|c| c.thr == 0 && c.idx == idx);
            match op {
                Op::Dispatch { store, act, via } if *store == s => {
                    let res = call.and_then(|c| c.res.clone());
                    if closed {
                        continue;
                    }
                    let mut expect_ok = true;
                    if q.len() < cap {
                        q.push_back(*act);
                    } else if sd.model.policy == Policy::DropOldest {
                        q.pop_front();
                        dropped += 1;
                        q.push_back(*act);
                    } else {
                        dropped += 1;
                        if matches!(via, Via::Disp) {
                            expect_ok = false;
                        }
                    }
                    let got_ok = res == Some(Res::Ok);
                    if got_ok != expect_ok {
                        v(out, "C06", "model-result", format!("store {s}: dispatch of {act} via {via:?} returned {:?}, the queue model expects {}", res, if expect_ok { "Ok" } else { "Err" }));
                    }
                }
                Op::Settle => progress(&mut held, &mut q, &mut tokens, &mut red),
                Op::Open { gate: g, n } if *g == gate => tokens = tokens.saturating_add(*n as u64),
                Op::Stop { store } | Op::Close { store } | Op::DropStore { store } if *store == s => {
                    if !closed {
                        closed = true;
                        tokens = u64::MAX / 2;
                        // the shutdown marker goes through the same policy
                        if q.len() >= cap && sd.model.policy == Policy::DropOldest {
                            q.pop_front();
                            dropped += 1;
                        }
                        progress(&mut held, &mut q, &mut tokens, &mut red);
                    }
                }
                _ => {}
            }
        }
        let actual: Vec<ActId> = sd.insts.iter().map(|i| i.act).collect();
        if actual != red {
            v(out, "C06", "survivors", format!("store {s} ({:?}, capacity {cap}): reduced {:?}, the queue model expects {:?}", sd.model.policy, actual, red));
        }
        if let Some(m) = final_metrics(d, s) {
            if m.dropped != dropped && !d.has_lossy_channeled(s) {
                v(out, "C06", "dropped-count", format!("store {s}: dropped-actions metric {} but the queue model discards {}", m.dropped, dropped));
            }
        }
    }
}

pub fn c18(d: &Digest, s: usize, out: &mut Vec<Violation>) {
    let sd = &d.stores[s];
    // monotonic snapshots
    let snaps: Vec<(&Call, &MetricsLite)> = d
        .calls
        .iter()
        .filter_map(|c| match (&c.op, &c.res) {
            (OpK::GetMetrics { store }, Some(Res::Metrics(m))) if *store == s => Some((c, m)),
            _ => None,
        })
        .collect();
    for (ca, a) in &snaps {
        for (cb, b) in &snaps {
            if ca.ret_or_max() < cb.inv {
                let dec = b.received < a.received
                    || b.dropped < a.dropped
                    || b.reduced < a.reduced
                    || b.effect_issued < a.effect_issued
                    || b.mw_executed < a.mw_executed
                    || b.state_notified < a.state_notified
                    || b.sub_notified < a.sub_notified
                    || b.errors < a.errors;
                if dec {
                    v(out, "C18", "monotonic", format!("store {s}: a later metrics snapshot is smaller: {:?} then {:?}", a, b));
                    return;
                }
            }
        }
    }
    let Some((m, m_inv, m_ret)) = final_metrics_at(d, s) else { return };
    let Some(dch) = sd.dchan else { return };
    if sd.model.hole_reducers {
        return;
    }
    // was the shutdown marker received?  Not if DropLatest found the queue full at close.  The
    // marker is the last thing anybody offers to the dispatch queue (whichever thread offers it).
    let last_offer = d.ev.iter().rposition(|e| matches!(&e.k, K::ChSend { chan, .. } | K::ChFull { chan } if *chan == dch));
    let exit_dropped = sd.model.policy == Policy::DropLatest
        && last_offer.map(|i| matches!(&d.ev[i].k, K::ChFull { .. }) && i >= sd.first_shutdown_inv.unwrap_or(usize::MAX)).unwrap_or(false);
    let x = if exit_dropped { 0 } else { 1 };
    let fs = sd.first_shutdown_inv.unwrap_or(usize::MAX);
    let n_open = sd.dispatches.iter().filter(|&&c| d.calls[c].ret_or_max() < fs).count();
    let n_amb = sd.dispatches.iter().filter(|&&c| d.calls[c].ret_or_max() >= fs && d.calls[c].inv < d.calls[sd.clean_stop.unwrap()].ret.unwrap()).count();
    // Effect::Action follow-ups are dispatches without a client call
    let mut f_all = 0usize;
    let mut f_red = 0usize;
    let pos = d.inst_positions(s);
    for inst in &sd.insts {
        for (_, _, eff, _) in d.red_ends(inst) {
            if let Some(e) = eff {
                if let Some(EffKind::Action(b)) = find_eff(d.prog, e).map(|x| x.kind) {
                    f_all += 1;
                    if pos.contains_key(&b) {
                        f_red += 1;
                    }
                }
            }
        }
    }
    if !d.has_lossy_channeled(s) {
        let left = (m.received + m.dropped) as i64 - x as i64;
        let lo = (n_open + f_red) as i64;
        let hi = (n_open + n_amb + f_all) as i64;
        if left < lo || left > hi {
            v(
                out,
                "C18",
                "received-plus-dropped",
                format!(
                    "store {s}: received {} (shutdown marker {}) + dropped {} = {}, but {}..{} actions were dispatched while open",
                    m.received, x, m.dropped, left, lo, hi
                ),
            );
        }
    }
    let vetoed = sd.insts.iter().filter(|i| d.vetoed(i)).count();
    if m.reduced as i64 != m.received as i64 - x as i64 - vetoed as i64 {
        v(out, "C18", "reduced", format!("store {s}: reduced {} != received {} - marker {} - vetoed {}", m.reduced, m.received, x, vetoed));
    }
    let issued = sd.insts.iter().map(|i| d.red_ends(i).iter().filter(|r| r.2.is_some()).count()).sum::<usize>();
    if m.effect_issued != issued {
        v(out, "C18", "effects-issued", format!("store {s}: effect_issued {} but reducers returned {} effects", m.effect_issued, issued));
    }
    let hooks = d.ev.iter().filter(|e| matches!(&e.k, K::MwB { store, .. } if *store == s)).count();
    if m.mw_executed != hooks {
        v(out, "C18", "middleware-executed", format!("store {s}: middleware_executed {} but {} hooks were invoked", m.mw_executed, hooks));
    }
    let is_rej = |c: &Call| matches!(c.op, OpK::Dispatch { via: Via::Impl | Via::Trait, .. }) && c.res == Some(Res::Err);
    let rejected = sd.dispatches.iter().filter(|&&c| is_rej(&d.calls[c]) && d.calls[c].ret_or_max() < m_inv).count();
    let rej_racing = sd.dispatches.iter().filter(|&&c| is_rej(&d.calls[c]) && d.calls[c].ret_or_max() >= m_inv && d.calls[c].inv < m_ret).count();
    if m.errors < rejected || m.errors > rejected + rej_racing {
        v(out, "C18", "errors", format!("store {s}: error_occurred {} but StoreImpl::dispatch rejected {} calls", m.errors, rejected));
    }
}

pub fn find_eff(p: &Program, id: EffId) -> Option<EffSpec> {
    for a in p.acts.values() {
        for r in a.red.values() {
            if let Some(e) = &r.eff {
                if e.id == id {
                    return Some(e.clone());
                }
            }
        }
        for m in a.mw.values() {
            if let Some(e) = &m.thunk {
                if e.id == id {
                    return Some(e.clone());
                }
            }
        }
    }
    for t in &p.threads {
        for o in t {
            match o {
                Op::Thunk { eff, .. } | Op::Task { eff, .. } if eff.id == id => return Some(eff.clone()),
                _ => {}
            }
        }
    }
    None
}
