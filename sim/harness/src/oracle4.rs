//! Oracles C09, C10, C14, C16 (subscriptions).
use crate::digest::*;
use crate::oracle::*;

pub fn c09_c10(_d: &Digest, _s: usize, _out: &mut Vec<Violation>) {}
pub fn c14(_d: &Digest, _s: usize, _out: &mut Vec<Violation>) {}
pub fn c16(_d: &Digest, _s: usize, _out: &mut Vec<Violation>) {}
