//! Oracles C09, C10 (subscription lifecycle, channeled subscribers), C14 (iterator), C16 (selector).

use crate::digest::*;
use crate::model::*;
use crate::oracle::*;
use crate::world::*;

fn v(out: &mut Vec<Violation>, prop: &'static str, clause: &'static str, detail: String) {
    out.push(Violation { prop, clause, detail, known: None });
}
fn vk(out: &mut Vec<Violation>, prop: &'static str, clause: &'static str, detail: String, known: &'static str) {
    out.push(Violation { prop, clause, detail, known: Some(known) });
}

/// the reference notification stream of store s: the log of a whole-run direct subscriber
/// (act, n, h, sel, seq), if the scenario has one
pub fn ref_stream(d: &Digest, s: usize) -> Option<Vec<(ActId, u32, u64, u8, usize)>> {
    let subs = whole_run_direct_subs(d, s);
    let (sub, _, _) = subs.first()?;
    if d.end_of_store(s).is_none() {
        return None;
    }
    Some(sub_log(d, *sub).into_iter().filter(|x| d.act_store.get(&x.0) == Some(&s)).collect())
}

fn unsub_calls<'a>(d: &'a Digest, reg: usize) -> Vec<&'a Call> {
    d.idx.unsub_calls.get(&reg).map(|v| v.iter().map(|&c| &d.calls[c]).collect()).unwrap_or_default()
}

fn regs_of_sub(d: &Digest, sub: usize) -> usize {
    d.idx.nregs.get(&sub).cloned().unwrap_or(0)
}

pub fn c09_c10(d: &Digest, s: usize, out: &mut Vec<Violation>) {
    let sd = &d.stores[s];
    let pos = d.inst_positions(s);
    let xret = sd.clean_stop.map(|c| d.calls[c].ret.unwrap());
    let tainted = sd.clean_stop.is_none();
    let tab = d.inst_table(s);
    for (reg, (sub, st, ci)) in &d.regs {
        if *st != s || regs_of_sub(d, *sub) != 1 {
            continue;
        }
        let kind = d.sub_kind(*sub).clone();
        if kind == SubKind::Selector {
            continue;
        }
        let add = &d.calls[*ci];
        let log = sub_log(d, *sub);
        if add.res == Some(Res::Err) {
            // injected spawn failure: the failed subscriber is exempt and must stay silent
            if !log.is_empty() {
                v(out, "C10", "failed-subscription-notified", format!("store {s}: subscriber {sub} whose subscription failed was notified"));
            }
            continue;
        }
        let Some(add_ret) = add.ret else { continue };
        let unsubs = unsub_calls(d, *reg);
        let u1 = unsubs.first().cloned();
        let channeled = matches!(kind, SubKind::Channeled { .. });
        let ch_policy = match kind {
            SubKind::Channeled { policy, .. } => Some(policy),
            _ => None,
        };
        // ---- C09 (b): silent after unsubscribe() returned
        if let Some(u) = u1 {
            if let Some(uret) = u.ret {
                if let Some(late) = log.iter().find(|x| x.4 > uret) {
                    // the pipeline of that action began when the reducer took it from the queue
                    let took = d.ev[..late.4]
                        .iter()
                        .rposition(|e| Some(e.tid) == sd.rtid && matches!(&e.k, K::ChRecv { chan, .. } if Some(*chan) == sd.dchan));
                    // (a tree whose dispatch queue is not a channel shows no take: nothing to narrow by)
                    let began_before = took.map(|t| t < uret).unwrap_or(false)
                        || pos.get(&late.0).map(|p| sd.insts[p[0]].first < uret).unwrap_or(false)
                        || sd.dchan.is_none();
                    let msg = format!("store {s}: subscriber {sub} was notified of action {} after unsubscribe() had returned", late.0);
                    if !channeled && began_before {
                        vk(out, "C09", "notified-after-unsubscribe", msg, "F1");
                    } else {
                        v(out, if channeled { "C10" } else { "C09" }, "notified-after-unsubscribe", msg);
                    }
                }
            }
        }
        // ---- C09 (a): notified while registered
        if !tainted {
            for (inst, (must, dc_inv, end_bound)) in sd.insts.iter().zip(&tab) {
                if !*must {
                    continue;
                }
                let Some(dc_inv) = *dc_inv else { continue };
                if !(add_ret < dc_inv) {
                    continue;
                }
                if let Some(u) = u1 {
                    if u.inv < *end_bound {
                        continue;
                    }
                }
                if ch_policy.map(|p| p != Policy::Block).unwrap_or(false) {
                    continue;
                }
                if !log.iter().any(|x| x.0 == inst.act) {
                    v(
                        out,
                        if channeled { "C10" } else { "C09" },
                        "registered-but-not-notified",
                        format!("store {s}: subscriber {sub} was registered before action {} was dispatched and was not notified of it", inst.act),
                    );
                }
            }
        }
        // ---- C09 (d)/(e): on_unsubscribe exactly once, in time
        let unsub_evs: Vec<usize> = d.idx.unsub_evs.get(sub).cloned().unwrap_or_default();
        let before_shutdown = sd.first_shutdown_inv.map(|f| add_ret < f).unwrap_or(true);
        // ... and not before anybody asked for it
        if let Some(&i) = unsub_evs.first() {
            let asked = match (u1.map(|u| u.inv), sd.first_shutdown_inv) {
                (Some(a), Some(b)) => a.min(b),
                (Some(a), None) => a,
                (None, Some(b)) => b,
                (None, None) => usize::MAX,
            };
            if i < asked {
                v(out, "C09", "released-early", format!("store {s}: subscriber {sub} got on_unsubscribe although neither unsubscribe() nor a shutdown had been invoked"));
            }
        }
        if unsub_evs.len() > 1 {
            v(out, "C09", "released-twice", format!("store {s}: subscriber {sub} got on_unsubscribe {} times", unsub_evs.len()));
        }
        if before_shutdown && !tainted {
            let deadline = match (u1.and_then(|u| u.ret), xret) {
                (Some(a), Some(b)) => a.min(b),
                (Some(a), None) => a,
                (None, Some(b)) => b,
                (None, None) => usize::MAX,
            };
            match unsub_evs.first() {
                None => {
                    let msg = format!("store {s}: subscriber {sub} ({}) never got on_unsubscribe", if channeled { "channeled" } else { "direct" });
                    if channeled {
                        vk(out, "C09", "never-released", msg, "F2");
                    } else {
                        v(out, "C09", "never-released", msg);
                    }
                }
                Some(&i) => {
                    if i > deadline {
                        v(out, "C09", "released-late", format!("store {s}: subscriber {sub} got on_unsubscribe only after unsubscribe()/stop() had returned"));
                    }
                }
            }
        }
        // ---- C10
        let SubKind::Channeled { policy, .. } = kind else { continue };
        // "its own thread": not the reducer's, not a client's (how the thread is named is the
        // implementation's business)
        for x in &log {
            let tid = d.ev[x.4].tid;
            let client = d.tid_name.get(&tid).map(|n| n.starts_with("client-") || n == "sim-main").unwrap_or(false);
            if Some(tid) == sd.rtid || client {
                v(out, "C10", "own-thread", format!("store {s}: channeled subscriber {sub} was called on thread {:?} ({})", d.tid_name.get(&tid), tid));
                break;
            }
        }
        // nothing is delivered after stop() returned
        if let Some(xr) = xret {
            if let Some(late) = log.iter().find(|x| x.4 > xr) {
                v(out, "C10", "delivered-after-stop", format!("store {s}: channeled subscriber {sub} was still being notified (action {}) after stop() had returned", late.0));
            }
        }
        if let Some(r) = ref_stream(d, s) {
            // in-order (sub)sequence of the stream, with the right states
            let mut ri = 0;
            let mut first_at = None;
            let mut ok = true;
            for x in &log {
                match r[ri..].iter().position(|y| y.0 == x.0) {
                    Some(k) => {
                        if policy == Policy::Block && first_at.is_some() && k != 0 {
                            v(out, "C10", "gap", format!("store {s}: channeled subscriber {sub} (BlockOnFull) skipped notification(s) before action {}", x.0));
                            ok = false;
                            break;
                        }
                        let y = &r[ri + k];
                        if (y.1, y.2) != (x.1, x.2) {
                            v(out, "C10", "wrong-state", format!("store {s}: channeled subscriber {sub} got action {} with state n={}, a direct subscriber got n={}", x.0, x.1, y.1));
                        }
                        if first_at.is_none() {
                            first_at = Some(ri + k);
                        }
                        ri += k + 1;
                    }
                    None => {
                        v(out, "C10", "not-a-subsequence", format!("store {s}: channeled subscriber {sub} got action {} out of order, twice, or never notified to direct subscribers", x.0));
                        ok = false;
                        break;
                    }
                }
            }
            if ok && policy == Policy::DropOldest && u1.is_none() {
                if let Some(last) = r.last() {
                    let registered_in_time = d.dispatch_call_of(s, last.0).map(|dc| add_ret < dc.inv).unwrap_or(false);
                    if registered_in_time && log.last().map(|x| x.0) != Some(last.0) {
                        v(out, "C10", "newest-not-delivered", format!("store {s}: DropOldest channeled subscriber {sub} did not receive the newest notification (action {})", last.0));
                    }
                }
            }
        }
        // a subscriber attached for the whole run is offered every notification of the stream: each
        // one enters its queue (blocking / DropOldest) or is refused because the queue is full
        // (DropLatest) - none may vanish before the queue
        if let (Some(r), Some(ch)) = (ref_stream(d, s), d.reg_chan.get(reg)) {
            let first_dispatch = d.ev.iter().position(|e| matches!(&e.k, K::Inv { op: OpK::Dispatch { store, .. }, .. } if *store == s)).unwrap_or(usize::MAX);
            let end = d.end_of_store(s).unwrap_or(0);
            let whole_run = add_ret < first_dispatch && unsubs.iter().all(|u| u.inv > end);
            if whole_run {
                let consumer = d.reg_consumer.get(reg).cloned();
                let sends = d.ev.iter().filter(|e| matches!(&e.k, K::ChSend { chan, .. } if chan == ch) && Some(e.tid) != consumer).count();
                let refused = d.ev.iter().filter(|e| matches!(&e.k, K::ChFull { chan } if chan == ch)).count();
                let offered = if policy == Policy::DropLatest { sends + refused } else { sends };
                if offered != r.len() {
                    v(out, "C10", "not-enqueued", format!("store {s}: {} notifications were sent while channeled subscriber {sub} ({policy:?}) was attached, but only {offered} reached its queue", r.len()));
                }
            }
        }
        // everything queued was delivered (flush), at quiescence
        if let Some(ch) = d.reg_chan.get(reg) {
            let consumer: Option<usize> = d.reg_consumer.get(reg).cloned();
            let sends = d.ev.iter().filter(|e| matches!(&e.k, K::ChSend { chan, .. } if chan == ch)).count();
            let pops = d.ev.iter().filter(|e| matches!(&e.k, K::ChRecv { chan, .. } if chan == ch) && Some(e.tid) != consumer).count();
            if !tainted && sends >= pops && log.len() != sends - pops {
                v(out, "C10", "queued-not-delivered", format!("store {s}: {} notifications entered channeled subscriber {sub}'s queue ({} displaced) but {} were delivered", sends, pops, log.len()));
            }
        }
    }
    // C10: a stalled lossy subscriber never stalls reducing
    let only_lossy_stalls = d.prog.stores.iter().all(|c| c.stepper.is_none())
        && d.prog.acts.values().all(|a| a.red.values().all(|r| r.gate.is_none() && r.sleep_ms == 0 && r.eff.is_none()))
        && d.prog.subs.iter().all(|x| (x.gate.is_none() && x.sleep_ms == 0) || matches!(x.kind, SubKind::Channeled { policy, .. } if policy != Policy::Block))
        && d.prog.iters == 0;
    if only_lossy_stalls && sd.model.policy == Policy::Block && observable(sd) {
        for (q, e) in d.ev.iter().enumerate() {
            if !matches!(e.k, K::Snap { .. }) {
                continue;
            }
            let busy = d.calls.iter().any(|c| matches!(c.op, OpK::Unsub { .. } | OpK::Stop { .. } | OpK::Close { .. } | OpK::DropStore { .. }) && c.inv < q && c.res != Some(Res::Skipped) && c.ret_or_max() > q);
            if busy || sd.first_shutdown_inv.map(|f| f < q).unwrap_or(false) {
                continue;
            }
            for &ci in &sd.dispatches {
                let c = &d.calls[ci];
                if let (OpK::Dispatch { act, .. }, true) = (&c.op, c.ok()) {
                    if c.ret_or_max() < q && !pos.get(act).map(|p| sd.insts[p[0]].last < q).unwrap_or(false) {
                        v(out, "C10", "lossy-subscriber-stalled-store", format!("store {s}: action {act} not processed at quiescence while only a drop-policy channeled subscriber was stalled"));
                        return;
                    }
                }
            }
        }
    }
}

pub fn c14(d: &Digest, s: usize, out: &mut Vec<Violation>) {
    let sd = &d.stores[s];
    for c in &d.calls {
        let OpK::Iter { store, it } = c.op else { continue };
        if store != s || c.res == Some(Res::Skipped) {
            continue;
        }
        let Some(iret) = c.ret else { continue };
        if sd.first_shutdown_inv.map(|f| iret > f).unwrap_or(false) {
            continue; // created during/after shutdown: not quantified over
        }
        // "dropping it detaches it from the store": once drop() has returned, the reducer offers that
        // iterator nothing for any action it takes from the dispatch queue afterwards
        if let (Some(ch), Some(rt), Some(_)) = (d.iter_chan.get(&it), sd.rtid, sd.dchan) {
            if let Some(dret) = d.calls.iter().find(|x| matches!(x.op, OpK::DropIter { it: i } if i == it) && x.res == Some(Res::Unit)).and_then(|x| x.ret) {
                let mut last_take = None;
                for (j, e) in d.ev.iter().enumerate() {
                    if e.tid != rt {
                        continue;
                    }
                    match &e.k {
                        K::ChRecv { chan, .. } if Some(*chan) == sd.dchan => last_take = Some(j),
                        K::ChSend { chan, .. } | K::ChFull { chan } if chan == ch && j > dret && last_take.map(|t| t > dret).unwrap_or(false) => {
                            v(out, "C14", "not-detached", format!("store {s}: iterator {it} was dropped, yet the reducer still offered it the notification of an action it took afterwards"));
                            break;
                        }
                        K::Block { on: BlockOn::ChanSend(c) } if c == ch && j > dret && last_take.map(|t| t > dret).unwrap_or(false) => {
                            v(out, "C14", "not-detached", format!("store {s}: iterator {it} was dropped, yet the reducer still waits on its queue for an action it took afterwards"));
                            break;
                        }
                        _ => {}
                    }
                }
            }
        }
        let items: Vec<Option<(u32, u64, ActId)>> = d
            .ev
            .iter()
            .filter_map(|e| match &e.k {
                K::NextR { it: i, item } if *i == it => Some(*item),
                _ => None,
            })
            .collect();
        let first_none = items.iter().position(|x| x.is_none());
        if let Some(fnone) = first_none {
            if items[fnone..].iter().any(|x| x.is_some()) {
                v(out, "C14", "item-after-none", format!("store {s}: iterator {it} yielded an item after it had returned None"));
            }
        }
        let got: Vec<(u32, u64, ActId)> = items.iter().take(first_none.unwrap_or(items.len())).map(|x| x.unwrap()).collect();
        let Some(r) = ref_stream(d, s) else { continue };
        // contiguous run of the stream
        if let Some(f) = got.first() {
            match r.iter().position(|y| y.0 == f.2) {
                None => v(out, "C14", "not-in-stream", format!("store {s}: iterator {it} yielded action {} which was never notified", f.2)),
                Some(start) => {
                    for (k, g) in got.iter().enumerate() {
                        match r.get(start + k) {
                            Some(y) if y.0 == g.2 => {
                                if (y.1, y.2) != (g.0, g.1) {
                                    v(out, "C14", "wrong-state", format!("store {s}: iterator {it} yielded action {} with state n={}, notified state n={}", g.2, g.0, y.1));
                                }
                            }
                            other => {
                                v(out, "C14", "gap-or-repeat", format!("store {s}: iterator {it} yielded action {} where the stream has {:?}", g.2, other.map(|y| y.0)));
                                break;
                            }
                        }
                    }
                }
            }
        }
        // completeness: drained to None after a clean stop, never dropped before
        let drained = d.calls.iter().any(|x| matches!(x.op, OpK::Drain { it: i } if i == it) && x.ret.is_some() && x.res == Some(Res::Unit));
        if drained && first_none.is_some() {
            // ... judged against the model as well (the reference subscriber could be missing the
            // same notifications): every action whose reducers all answered Dispatch and which no
            // middleware suppressed, dispatched after the iterator was created
            for inst in &sd.insts {
                if d.notify_exp(inst) != NotifyExp::Must {
                    continue;
                }
                let after_creation = d.dispatch_call_of(s, inst.act).map(|dc| dc.inv > iret).unwrap_or(false);
                if after_creation && !got.iter().any(|g| g.2 == inst.act) {
                    v(out, "C14", "missed", format!("store {s}: iterator {it} never yielded action {} (reduced with Dispatch) dispatched after it was created", inst.act));
                    break;
                }
            }
            for y in &r {
                let after_creation = d.dispatch_call_of(s, y.0).map(|dc| dc.inv > iret).unwrap_or(false);
                if after_creation && !got.iter().any(|g| g.2 == y.0) {
                    v(out, "C14", "missed", format!("store {s}: iterator {it} never yielded action {} dispatched after it was created", y.0));
                }
            }
            // ends only because the store stopped (or it was exhausted by its own Exit)
            if items.len() - first_none.unwrap() < 4 {
                v(out, "C14", "none-not-sticky", format!("store {s}: iterator {it}: fewer None results recorded than calls made"));
            }
        }
    }
}

/// C19/C16: a subscriber object shared by several stores.  Direct: told of every notifying action
/// of every store it is registered with, whatever happens to the other stores.  Selector: its
/// callbacks are the de-duplication of SOME interleaving of the per-store notification streams
/// (on_notify calls on one object are serialised, their order across stores is not observable).
pub fn shared_subscribers(d: &Digest, out: &mut Vec<Violation>) {
    for (sub, cfg) in d.prog.subs.iter().enumerate() {
        if !cfg.shared {
            continue;
        }
        let regs: Vec<(usize, usize, usize)> = d.regs.iter().filter(|(_, x)| x.0 == sub).map(|(r, x)| (*r, x.1, x.2)).collect();
        if regs.len() < 2 {
            continue;
        }
        // preconditions: every registration precedes every dispatch, no unsubscribe before the
        // store's clean stop, every store has a reference stream
        let first_dispatch = d.ev.iter().position(|e| matches!(&e.k, K::Inv { op: OpK::Dispatch { .. }, .. })).unwrap_or(usize::MAX);
        let mut streams: Vec<Vec<(u8, ActId)>> = vec![];
        let mut ok = true;
        for (reg, s, ci) in &regs {
            let c = &d.calls[*ci];
            let Some(xs) = d.stores[*s].clean_stop else { ok = false; break };
            let xret = d.calls[xs].ret.unwrap();
            if !(c.ok() && c.ret_or_max() < first_dispatch) || unsub_calls(d, *reg).iter().any(|u| u.inv < xret) {
                ok = false;
                break;
            }
            match ref_stream(d, *s) {
                Some(r) => streams.push(r.iter().map(|y| (y.3, y.0)).collect()),
                None => {
                    ok = false;
                    break;
                }
            }
        }
        if !ok || streams.len() != 2 {
            continue;
        }
        match cfg.kind {
            SubKind::Direct => {
                let log = sub_log(d, sub);
                for st in &streams {
                    for (_, act) in st {
                        let n = log.iter().filter(|x| x.0 == *act).count();
                        if n != 1 {
                            v(out, "C19", "shared-subscriber", format!("subscriber object {sub} shared by two stores was notified {n} times of action {act} (a reference subscriber of that store: once)"));
                            return;
                        }
                    }
                }
            }
            SubKind::Selector => {
                let cbs: Vec<(u8, ActId)> = d
                    .ev
                    .iter()
                    .filter_map(|e| match &e.k {
                        K::SelCb { sub: sb, val, act } if *sb == sub => Some((*val, *act)),
                        _ => None,
                    })
                    .collect();
                let (a, b) = (&streams[0], &streams[1]);
                // reachable states (i, j, k, last)
                let mut seen = std::collections::BTreeSet::new();
                let mut stack = vec![(0usize, 0usize, 0usize, None::<u8>)];
                let mut accepted = false;
                while let Some(stt) = stack.pop() {
                    if !seen.insert(stt) {
                        continue;
                    }
                    let (i, j, k, last) = stt;
                    if i == a.len() && j == b.len() {
                        if k == cbs.len() {
                            accepted = true;
                            break;
                        }
                        continue;
                    }
                    for (x, ni, nj) in [(a.get(i), i + 1, j), (b.get(j), i, j + 1)] {
                        let Some(x) = x else { continue };
                        if Some(x.0) == last {
                            stack.push((ni, nj, k, last));
                        } else if cbs.get(k) == Some(x) {
                            stack.push((ni, nj, k + 1, Some(x.0)));
                        }
                    }
                }
                if !accepted {
                    v(out, "C16", "shared-selector-not-dedup-of-any-interleaving", format!("selector {sub} shared by two stores delivered {:?}; no interleaving of the stores' notification streams {:?} and {:?} de-duplicates to that", cbs, a, b));
                }
            }
            _ => {}
        }
    }
}

fn dedup<T: PartialEq + Clone, U: Clone>(v: &[(T, U)]) -> Vec<(T, U)> {
    let mut out: Vec<(T, U)> = vec![];
    for x in v {
        if out.last().map(|l| l.0 != x.0).unwrap_or(true) {
            out.push(x.clone());
        }
    }
    out
}

pub fn c16(d: &Digest, s: usize, out: &mut Vec<Violation>) {
    let sd = &d.stores[s];
    for (reg, (sub, st, ci)) in &d.regs {
        if *st != s || *d.sub_kind(*sub) != SubKind::Selector {
            continue;
        }
        let cbs: Vec<(u8, ActId)> = d
            .ev
            .iter()
            .filter_map(|e| match &e.k {
                K::SelCb { sub: sb, val, act } if sb == sub && d.act_store.get(act) == Some(&s) => Some((*val, *act)),
                _ => None,
            })
            .collect();
        // the callback is made from inside the notification of the action that caused it: on the
        // store's reducer thread, before that thread goes back to its queue (shared or not)
        if let Some(rt) = sd.rtid {
            let pos = d.inst_positions(s);
            for (i, e) in d.ev.iter().enumerate() {
                let K::SelCb { sub: sb, act, .. } = &e.k else { continue };
                if sb != sub || d.act_store.get(act) != Some(&s) {
                    continue;
                }
                let bound = pos.get(act).map(|p| d.inst_end_bound(s, &sd.insts[p[0]])).unwrap_or(usize::MAX);
                if e.tid != rt || i > bound {
                    v(out, "C16", "callback-outside-its-notification", format!("store {s}: selector {sub} delivered the value of action {act} {}", if e.tid != rt { "on a thread that is not this store's reducer thread" } else { "after the reducer had gone on to its next action" }));
                    break;
                }
            }
        }
        // local invariants hold for shared and unshared selectors alike
        if !d.prog.subs[*sub].shared {
            for w in cbs.windows(2) {
                if w[0].0 == w[1].0 {
                    v(out, "C16", "repeated-value", format!("store {s}: selector {sub} delivered value {} twice in a row (actions {} and {})", w[0].0, w[0].1, w[1].1));
                }
            }
        }
        for (val, act) in &cbs {
            if let Some(p) = d.inst_positions(s).get(act) {
                let want = d.prog.acts.get(act).map(|a| a.sel).unwrap_or(0);
                let inst = &sd.insts[p[0]];
                let reduced = !d.red_ends(inst).is_empty();
                if reduced && *val != want {
                    v(out, "C16", "wrong-value", format!("store {s}: selector {sub} delivered {val} for action {act} whose state selects {want}"));
                }
            }
        }
        if d.prog.subs[*sub].shared || regs_of_sub(d, *sub) != 1 {
            continue;
        }
        let Some(r) = ref_stream(d, s) else { continue };
        let add = &d.calls[*ci];
        let Some(add_ret) = add.ret else { continue };
        let stream: Vec<(u8, ActId)> = r.iter().map(|y| (y.3, y.0)).collect();
        let unsubs = unsub_calls(d, *reg);
        let u1 = unsubs.first();
        // latest possible start: the first notification whose dispatch was invoked after registration
        let jmax = r.iter().position(|y| d.dispatch_call_of(s, y.0).map(|dc| dc.inv > add_ret).unwrap_or(false)).unwrap_or(r.len());
        // earliest possible end (exclusive): notifications completed before unsubscribe was invoked
        let kmin = match u1 {
            None => r.len(),
            Some(u) => r.iter().take_while(|y| d.inst_positions(s).get(&y.0).map(|p| sd.insts[p[0]].last < u.inv).unwrap_or(false)).count(),
        };
        let mut okay = false;
        for j in 0..=jmax.min(r.len()) {
            let full = dedup(&stream[j..]);
            let must = if kmin > j { dedup(&stream[j..kmin]) } else { vec![] };
            let is_prefix = |a: &[(u8, ActId)], b: &[(u8, ActId)]| a.len() <= b.len() && a.iter().zip(b.iter()).all(|(x, y)| x == y);
            if is_prefix(&cbs, &full) && is_prefix(&must, &cbs) {
                okay = true;
                break;
            }
        }
        if !okay {
            v(
                out,
                "C16",
                "not-dedup-of-stream",
                format!("store {s}: selector {sub} callbacks {:?} are not the de-duplicated selected values of the notification stream {:?} (window start <= {jmax}, end >= {kmin})", cbs, stream),
            );
        }
    }
}
