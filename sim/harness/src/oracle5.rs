//! Oracles C11 (effects), C12 (middleware verdicts), C17 (builder).

use crate::digest::*;
use crate::model::*;
use crate::oracle::*;
use crate::oracle3::find_eff;
use crate::world::*;

fn v(out: &mut Vec<Violation>, prop: &'static str, clause: &'static str, detail: String) {
    out.push(Violation { prop, clause, detail, known: None });
}
fn vk(out: &mut Vec<Violation>, prop: &'static str, clause: &'static str, detail: String, known: &'static str) {
    out.push(Violation { prop, clause, detail, known: Some(known) });
}

/// effects of an instance after the before_effect hooks: (retained, removed)
pub fn effects_after_hooks(d: &Digest, inst: &Inst) -> (Vec<EffId>, Vec<EffId>) {
    let mut effs: Vec<EffId> = d.red_ends(inst).iter().filter_map(|r| r.2).collect();
    let mut removed = vec![];
    for (tag, _, _) in d.hook_events(inst, 1) {
        if let Some(sc) = d.prog.acts.get(&inst.act).and_then(|a| a.mw.get(&tag)) {
            for &pos in &sc.remove {
                if pos < effs.len() {
                    removed.push(effs.remove(pos));
                }
            }
        }
    }
    (effs, removed)
}

/// does this event happen on the reducer thread while the reducer loop is still alive?  (The
/// pool worker that hosted the reducer loop may legitimately run queued tasks afterwards.)
fn in_reducer_context(d: &Digest, s: usize, idx: usize) -> bool {
    let sd = &d.stores[s];
    if Some(d.ev[idx].tid) != sd.rtid {
        return false;
    }
    let last_pipe = sd.insts.last().map(|i| i.last).unwrap_or(0);
    let last_recv = d
        .ev
        .iter()
        .enumerate()
        .filter(|(_, e)| Some(e.tid) == sd.rtid && matches!(&e.k, K::ChRecv { chan, .. } if Some(*chan) == sd.dchan))
        .map(|(i, _)| i)
        .last()
        .unwrap_or(0);
    idx < last_pipe.max(last_recv)
}

fn eff_runs(d: &Digest, e: EffId) -> Vec<usize> {
    d.ev.iter().enumerate().filter(|(_, x)| matches!(&x.k, K::EffB { eff } if *eff == e)).map(|(i, _)| i).collect()
}

/// first Stop/DropStore invocation on the store (these take the pool away)
fn first_pool_take(d: &Digest, s: usize) -> Option<usize> {
    d.stores[s]
        .shutdowns
        .iter()
        .map(|&c| &d.calls[c])
        .filter(|c| matches!(c.op, OpK::Stop { .. } | OpK::DropStore { .. }))
        .map(|c| c.inv)
        .min()
}

/// the first reducer-context event after the point where the effects of `inst` were submitted
fn after_effect_phase(d: &Digest, s: usize, ii: usize) -> Option<usize> {
    let sd = &d.stores[s];
    let inst = &sd.insts[ii];
    let phase_end = inst
        .evs
        .iter()
        .rev()
        .find(|&&i| matches!(&d.ev[i].k, K::MwE { hook: 1, .. } | K::RedE { .. }))
        .cloned()
        .unwrap_or(inst.first);
    inst.evs.iter().find(|&&i| i > phase_end).cloned().or_else(|| sd.insts.get(ii + 1).map(|n| n.first))
}

pub fn c11(d: &Digest, s: usize, out: &mut Vec<Violation>) {
    let sd = &d.stores[s];
    let pos = d.inst_positions(s);
    let take = first_pool_take(d, s);
    let any_shutdown = sd.first_shutdown_inv;
    // a stop() that gave up after its timeout took the pool away from a store that was still
    // working: whether outstanding effects run is then outside the statement (inconclusive)
    let stop_timed_out = sd.shutdowns.iter().any(|&c| d.timer_in_call(&d.calls[c]));
    let settle_rets: Vec<(usize, usize)> = d.calls.iter().filter(|c| c.op == OpK::Settle).filter_map(|c| c.ret.map(|r| (c.inv, r))).collect();
    let mut store_effs: Vec<EffId> = vec![];
    for (ii, inst) in sd.insts.iter().enumerate() {
        let (retained, _removed) = effects_after_hooks(d, inst);
        let next_ev = after_effect_phase(d, s, ii);
        let f3 = match (take, next_ev) {
            (Some(t), Some(n)) => t < n,
            (Some(_), None) => true,
            _ => false,
        };
        for e in retained {
            let Some(spec) = find_eff(d.prog, e) else { continue };
            store_effs.push(e);
            match &spec.kind {
                EffKind::Action(b) => {
                    let p = pos.get(b);
                    match p {
                        Some(p) => {
                            if p.len() > 1 {
                                v(out, "C11", "followup-twice", format!("store {s}: Effect::Action({b}) produced by {} was reduced {} times", inst.act, p.len()));
                            }
                            if p[0] <= ii {
                                v(out, "C11", "followup-before-producer", format!("store {s}: Effect::Action({b}) was reduced before the action {} that produced it", inst.act));
                            }
                        }
                        None => {
                            if sd.model.policy != Policy::Block {
                                continue;
                            }
                            // must have happened by a quiescent point before any shutdown
                            let quiesced = !crate::oracle2::prog_has_stalls(d.prog) && settle_rets.iter().any(|(si, sr)| *si > inst.last && any_shutdown.map(|f| *sr < f).unwrap_or(true));
                            if quiesced {
                                v(out, "C11", "followup-lost", format!("store {s}: Effect::Action({b}) produced by {} was never reduced although the store was quiescent and open afterwards", inst.act));
                            }
                            // otherwise excused: the statement exempts a follow-up whose store
                            // "has been closed in the meantime", and stop() begins by closing
                        }
                    }
                }
                _ => {
                    let runs = eff_runs(d, e);
                    if runs.len() > 1 {
                        v(out, "C11", "effect-ran-twice", format!("store {s}: effect {e} of action {} ran {} times", inst.act, runs.len()));
                    }
                    for &r in &runs {
                        if in_reducer_context(d, s, r) {
                            v(out, "C11", "effect-in-reducer-context", format!("store {s}: effect {e} ran on the reducer thread"));
                        }
                        if r < inst.first {
                            v(out, "C11", "effect-before-producer", format!("store {s}: effect {e} ran before action {} was reduced", inst.act));
                        }
                    }
                    if runs.is_empty() && !stop_timed_out {
                        if f3 {
                            vk(out, "C11", "effect-skipped-at-stop", format!("store {s}: effect {e} of action {} (accepted before stop() was called) never ran", inst.act), "F3");
                        } else {
                            v(out, "C11", "effect-never-ran", format!("store {s}: effect {e} returned by a reducer for action {} never ran", inst.act));
                        }
                    }
                }
            }
        }
        // thunks submitted by a middleware's before_reduce
        for &i in &inst.evs {
            if let K::MwE { tag, hook: 0, .. } = &d.ev[i].k {
                if let Some(t) = d.prog.acts.get(&inst.act).and_then(|a| a.mw.get(tag)).and_then(|m| m.thunk.clone()) {
                    store_effs.push(t.id);
                    let runs = eff_runs(d, t.id);
                    if runs.len() > 1 {
                        v(out, "C11", "effect-ran-twice", format!("store {s}: middleware thunk {} ran {} times", t.id, runs.len()));
                    }
                    if runs.is_empty() && !stop_timed_out {
                        if take.map(|tk| tk < i).unwrap_or(false) {
                            vk(out, "C11", "effect-skipped-at-stop", format!("store {s}: middleware thunk {} never ran", t.id), "F3");
                        } else {
                            v(out, "C11", "effect-never-ran", format!("store {s}: thunk {} handed to dispatch_thunk by a middleware never ran", t.id));
                        }
                    }
                    for &r in &runs {
                        if in_reducer_context(d, s, r) {
                            v(out, "C11", "effect-in-reducer-context", format!("store {s}: middleware thunk {} ran on the reducer thread", t.id));
                        }
                    }
                }
            }
        }
    }
    // thunks and tasks handed to the store by clients
    for c in &d.calls {
        let (e, st) = match &c.op {
            OpK::Thunk { store, eff } | OpK::Task { store, eff } => (*eff, *store),
            _ => continue,
        };
        if st != s || c.res == Some(Res::Skipped) {
            continue;
        }
        store_effs.push(e);
        let runs = eff_runs(d, e);
        if runs.len() > 1 {
            v(out, "C11", "effect-ran-twice", format!("store {s}: client task/thunk {e} ran {} times", runs.len()));
        }
        let running = take.map(|t| c.ret_or_max() < t).unwrap_or(true);
        if running && runs.is_empty() {
            v(out, "C11", "client-task-never-ran", format!("store {s}: task/thunk {e} handed to the running store never ran"));
        }
        for &r in &runs {
            if in_reducer_context(d, s, r) {
                v(out, "C11", "effect-in-reducer-context", format!("store {s}: client task/thunk {e} ran on the reducer thread"));
            }
        }
    }
    // a thunk's dispatcher is a dispatcher for this store
    if sd.model.policy == Policy::Block && sd.clean_stop.is_some() && observable(sd) && !sd.model.hole_reducers {
        for &ci in &sd.dispatches {
            let c = &d.calls[ci];
            if let OpK::Dispatch { act, via: Via::Thunk, .. } = c.op {
                if c.ok() && !pos.contains_key(&act) {
                    v(out, "C11", "thunk-dispatch-lost", format!("store {s}: action {act} dispatched Ok through a thunk's dispatcher was not reduced by this store"));
                }
            }
        }
    }
    // nothing runs after a clean stop
    if let Some(xi) = sd.clean_stop {
        let xret = d.calls[xi].ret.unwrap();
        for e in &d.ev[xret..] {
            if let K::EffB { eff } | K::EffE { eff, .. } = &e.k {
                if store_effs.contains(eff) {
                    // finding F6 is a race between the pool's join and a worker that has taken a job
                    // from the pool's job channel: the late effect's own worker must have got it there
                    // (a job handed to a freshly spawned worker is counted busy from the start)
                    let begun = d.ev.iter().position(|x| matches!(&x.k, K::EffB { eff: b } if b == eff)).unwrap_or(0);
                    let via_channel = sd.pool_chan.map(|pc| d.ev[..begun].iter().any(|x| x.tid == e.tid && matches!(&x.k, K::ChRecv { chan, .. } if *chan == pc))).unwrap_or(false);
                    let msg = format!("store {s}: effect {eff} was running after stop() had returned without timing out");
                    if via_channel {
                        vk(out, "C11", "effect-after-stop", msg, "F6");
                    } else {
                        v(out, "C11", "effect-after-stop", msg);
                    }
                    break;
                }
            }
        }
    }
    // the reducer never waits for an effect: with only effects parked, every accepted action's
    // reducer-context pipeline is complete at a quiescent point
    let only_effect_stalls = d.prog.iters == 0
        && d.prog.stores.iter().all(|c| c.stepper.is_none())
        && d.prog.subs.iter().all(|x| x.gate.is_none() && x.sleep_ms == 0)
        && d.prog.acts.values().all(|a| a.red.values().all(|r| r.gate.is_none() && r.sleep_ms == 0));
    if only_effect_stalls && sd.model.policy == Policy::Block && observable(sd) {
        for (q, e) in d.ev.iter().enumerate() {
            if !matches!(e.k, K::Snap { .. }) {
                continue;
            }
            if any_shutdown.map(|f| f < q).unwrap_or(false) {
                continue;
            }
            for &ci in &sd.dispatches {
                let c = &d.calls[ci];
                if let (OpK::Dispatch { act, .. }, true) = (&c.op, c.ok()) {
                    if c.ret_or_max() < q {
                        let done = pos.get(act).map(|p| sd.insts[p[0]].last < q).unwrap_or(false);
                        if !done {
                            v(out, "C11", "reducer-stalled-by-effect", format!("store {s}: action {act} was not processed at quiescence although only effects were stalled"));
                            return;
                        }
                    }
                }
            }
        }
    }
}

pub fn c12(d: &Digest, s: usize, out: &mut Vec<Violation>) {
    let sd = &d.stores[s];
    for inst in &sd.insts {
        let n_eff0 = d.red_ends(inst).iter().filter(|r| r.2.is_some()).count();
        let mut eff_len = n_eff0;
        let mut broke = [false; 3];
        for &i in &inst.evs {
            match &d.ev[i].k {
                K::MwB { tag, hook, n, h, neff, .. } => {
                    let hk = *hook as usize;
                    if broke[hk] {
                        v(out, "C12", "called-after-break", format!("store {s} action {}: middleware {tag} hook {hook} called after BreakChain", inst.act));
                    }
                    let want = if *hook == 0 { inst.before } else { inst.after };
                    if (*n, *h) != want {
                        v(
                            out,
                            "C12",
                            "hook-argument-state",
                            format!("store {s} action {}: middleware {tag} hook {hook} saw state n={n}, documented state is n={}", inst.act, want.0),
                        );
                    }
                    if *hook == 1 && *neff != eff_len {
                        v(out, "C12", "hook-argument-effects", format!("store {s} action {}: before_effect of {tag} saw {neff} effects, expected {eff_len}", inst.act));
                    }
                }
                K::MwE { hook, verdict, removed, .. } => {
                    if *verdict == Verdict::Break as u8 {
                        broke[*hook as usize] = true;
                    }
                    if *hook == 1 {
                        eff_len = eff_len.saturating_sub(*removed);
                    }
                }
                _ => {}
            }
        }
        // only BreakChain cuts a phase short: Continue, Done and Err leave the rest of the chain alone
        for hook in 0..3u8 {
            let called: Vec<u32> = inst
                .evs
                .iter()
                .filter_map(|&i| match &d.ev[i].k {
                    K::MwB { tag, hook: h, .. } if *h == hook => Some(*tag),
                    _ => None,
                })
                .collect();
            if called.is_empty() || broke[hook as usize] {
                continue;
            }
            if let Err(e) = check_tags(d, inst, &called, &sd.model.middlewares, &sd.added_mws, s) {
                v(out, "C12", "chain-cut-without-break", format!("store {s} action {} hook {hook}: {e}", inst.act));
            }
        }
        // an Err is otherwise treated as ContinueAction
        let h0 = d.hook_events(inst, 0);
        let err0 = h0.iter().any(|x| x.1 == Verdict::Err as u8);
        if err0 && !d.vetoed(inst) && !sd.model.reducers.is_empty() && !sd.model.hole_reducers && !inst.evs.iter().any(|&i| matches!(d.ev[i].k, K::RedB { .. })) {
            v(out, "C12", "err-not-treated-as-continue", format!("store {s}: action {} was kept from the reducers after a before_reduce Err (no DoneAction was returned)", inst.act));
        }
        // DoneAction from before_reduce: no reducer sees the action
        if d.vetoed(inst) && inst.evs.iter().any(|&i| matches!(d.ev[i].k, K::RedB { .. })) {
            v(out, "C12", "done-before-reduce-ignored", format!("store {s}: action {} was reduced although before_reduce answered DoneAction", inst.act));
        }
        // DoneAction from before_dispatch: no subscriber is told
        let suppressed = d.hook_events(inst, 2).iter().any(|x| x.1 == Verdict::Done as u8);
        if suppressed && inst.evs.iter().any(|&i| matches!(d.ev[i].k, K::NotB { .. } | K::SelCb { .. })) {
            v(out, "C12", "done-before-dispatch-ignored", format!("store {s}: subscribers were notified of action {} although before_dispatch answered DoneAction", inst.act));
        }
        // effects a middleware removed are not run
        let (_, removed) = effects_after_hooks(d, inst);
        for e in removed {
            match find_eff(d.prog, e).map(|x| x.kind) {
                Some(EffKind::Action(b)) => {
                    if d.inst_positions(s).contains_key(&b) {
                        v(out, "C12", "removed-effect-ran", format!("store {s}: Effect::Action({b}) removed in before_effect was dispatched anyway"));
                    }
                }
                Some(_) => {
                    if !eff_runs(d, e).is_empty() {
                        v(out, "C12", "removed-effect-ran", format!("store {s}: effect {e} removed in before_effect ran anyway"));
                    }
                }
                None => {}
            }
        }
    }
    // Err is handed once to that middleware's on_error
    let Some(rtid) = sd.rtid else { return };
    let rt: Vec<&Ev> = d
        .ev
        .iter()
        .filter(|e| e.tid == rtid && matches!(e.k, K::MwB { .. } | K::MwE { .. } | K::MwErr { .. } | K::RedB { .. } | K::RedE { .. } | K::NotB { .. } | K::NotE { .. } | K::SelCb { .. }))
        .collect();
    for (i, e) in rt.iter().enumerate() {
        match &e.k {
            K::MwE { store, tag, verdict, act, hook, .. } if *store == s && *verdict == Verdict::Err as u8 => {
                let ok = matches!(rt.get(i + 1).map(|x| &x.k), Some(K::MwErr { store: s2, tag: t2 }) if *s2 == s && t2 == tag);
                if !ok {
                    v(out, "C12", "err-not-reported", format!("store {s} action {act}: middleware {tag} hook {hook} returned Err but its on_error was not called next"));
                }
                if matches!(rt.get(i + 2).map(|x| &x.k), Some(K::MwErr { .. })) {
                    v(out, "C12", "err-reported-twice", format!("store {s} action {act}: on_error called more than once for one Err"));
                }
            }
            K::MwErr { store, tag } if *store == s => {
                let prev_err = i > 0 && matches!(&rt[i - 1].k, K::MwE { tag: t2, verdict, .. } if t2 == tag && *verdict == Verdict::Err as u8);
                let prev_is_err_ev = i > 0 && matches!(&rt[i - 1].k, K::MwErr { .. });
                if !prev_err && !prev_is_err_ev {
                    v(out, "C12", "on-error-without-err", format!("store {s}: on_error of middleware {tag} called without a preceding Err from it"));
                }
            }
            _ => {}
        }
    }
}

/// the builder as the pinned code computes it (finding F5: with_capacity resets without_reducer)
fn quirk_ok(calls: &[BCall]) -> bool {
    let m = builder_model(calls);
    let mut without = false;
    let mut nred = 0usize;
    for c in calls {
        match c {
            BCall::WithReducer(_) => {
                nred = 1;
                without = false;
            }
            BCall::WithReducers(v) => {
                nred = v.len();
                without = false;
            }
            BCall::AddReducer(_) => nred += 1,
            BCall::WithoutReducer => without = true,
            BCall::WithCapacity(_) => without = false,
            _ => {}
        }
    }
    m.capacity != 0 && !m.name.is_empty() && (nred > 0 || without)
}

pub fn c17(d: &Digest, out: &mut Vec<Violation>) {
    for (s, sd) in d.stores.iter().enumerate() {
        let Some(built) = sd.built else { continue };
        let calls = &d.prog.stores[s].builder;
        if d.prog.stores[s].ctor != 0 {
            continue;
        }
        if !sd.model.hole_ok && built != sd.model.ok {
            let msg = format!("store {s}: build() returned {} for {:?}, the last-setting model says {}", if built { "Ok" } else { "Err" }, calls, if sd.model.ok { "Ok" } else { "Err" });
            let f5 = !built && sd.model.ok && quirk_ok(calls) == built;
            if f5 {
                vk(out, "C17", "build-verdict", msg, "F5");
            } else {
                v(out, "C17", "build-verdict", msg);
            }
        }
        if !built {
            continue;
        }
        let Some(bc) = sd.build_call else { continue };
        let c = &d.calls[bc];
        let end = c.ret.unwrap_or(d.ev.len());
        // worker thread name prefix
        let prefix = sd.model.name.clone();
        for e in &d.ev[c.inv..end] {
            if let K::Spawn { name, parent, .. } = &e.k {
                if *parent != c.tid {
                    continue;
                }
                let ok = name.as_deref().map(|n| n.starts_with(&prefix)).unwrap_or(false);
                if !ok {
                    v(out, "C17", "name-used", format!("store {s}: worker thread named {:?}, configured store name {:?}", name, sd.model.name));
                }
            }
        }
        // (a tree whose dispatch queue is not a channel gives nothing to read the capacity from)
        if sd.dchan.is_some() && sd.dchan_cap != Some(sd.model.capacity) {
            v(out, "C17", "capacity-used", format!("store {s}: queue capacity {:?}, configured {}", sd.dchan_cap, sd.model.capacity));
        }
    }
}
