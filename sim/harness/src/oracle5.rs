//! Oracles C11, C12, C17.
use crate::digest::*;
use crate::oracle::*;

pub fn c11(_d: &Digest, _s: usize, _out: &mut Vec<Violation>) {}
pub fn c12(_d: &Digest, _s: usize, _out: &mut Vec<Violation>) {}
pub fn c17(_d: &Digest, _out: &mut Vec<Violation>) {}
