//! Which families serve which property, what counts as a non-trivial run for it, probes.

use crate::digest::*;
use std::collections::BTreeMap;
use crate::model::*;
use crate::oracle::Violation;
use crate::world::*;

pub struct PropSpec {
    pub id: &'static str,
    /// (family, weight)
    pub families: &'static [(&'static str, u32)],
    /// clauses of other properties that count for this one, restricted to a family
    pub borrowed: &'static [(&'static str, &'static str)],
    pub rule: &'static str,
    pub quick_runs: u64,
}

pub const PROPS: &[PropSpec] = &[
    PropSpec { id: "C01", families: &[("core", 6), ("stop", 2), ("eff", 2)], borrowed: &[], quick_runs: 240_000,
        rule: "non-trivial: >=2 client threads dispatched to the same store and their dispatch calls overlapped in time, with >=2 actions reduced" },
    PropSpec { id: "C02", families: &[("core", 4), ("bp", 2), ("eff", 2), ("mw", 2)], borrowed: &[], quick_runs: 240_000,
        rule: "non-trivial: two dispatches from different threads were ordered by real time (one returned before the other was invoked) or by program order, and both were reduced" },
    PropSpec { id: "C03", families: &[("core", 5), ("mw", 3), ("sub", 3)], borrowed: &[], quick_runs: 240_000,
        rule: "non-trivial: a whole-run direct subscriber existed and the history contains both notifying and non-notifying (Keep or suppressed) actions" },
    PropSpec { id: "C04", families: &[("stop", 9), ("sub", 1)], borrowed: &[], quick_runs: 240_000,
        rule: "non-trivial: a dispatch call overlapped stop() in time, or the queue held a backlog >= 1 when stop() was invoked" },
    PropSpec { id: "C05", families: &[("bp", 7), ("stop", 3)], borrowed: &[], quick_runs: 160_000,
        rule: "non-trivial: a dispatch blocked on the full dispatch queue (seam event Block on ChanSend of the store's queue) under BlockOnFull" },
    PropSpec { id: "C06", families: &[("bp", 8), ("mw", 2)], borrowed: &[], quick_runs: 160_000,
        rule: "non-trivial: a drop policy actually discarded an action (metric or Err result) in the run" },
    PropSpec { id: "C07", families: &[("core", 4), ("mw", 4), ("sub", 2)], borrowed: &[("C03", "sub"), ("C03", "core"), ("C03", "mw")], quick_runs: 240_000,
        rule: "non-trivial: >=2 kinds of reducer-context callbacks ran for >=2 actions while another client thread was runnable" },
    PropSpec { id: "C08", families: &[("core", 10)], borrowed: &[], quick_runs: 240_000,
        rule: "non-trivial: a get_state() call overlapped a pipeline instance in time, or a read happened inside a callback" },
    PropSpec { id: "C09", families: &[("sub", 39), ("long", 1)], borrowed: &[("C14", "sub"), ("C10", "sub"), ("C10", "long"), ("C14", "long")], quick_runs: 240_000,
        rule: "non-trivial: an unsubscribe() call overlapped a pipeline instance or a dispatch, or a subscriber was still registered at shutdown" },
    PropSpec { id: "C10", families: &[("sub", 10)], borrowed: &[], quick_runs: 240_000,
        rule: "non-trivial: a channeled subscriber received >=1 notification and its queue was full at least once or it was unsubscribed/stopped with items queued" },
    PropSpec { id: "C11", families: &[("eff", 7), ("stop", 3)], borrowed: &[("C13", "eff")], quick_runs: 240_000,
        rule: "non-trivial: >=1 effect ran while the reducer thread was inside a later pipeline, or stop() was invoked with effects outstanding" },
    PropSpec { id: "C12", families: &[("mw", 8), ("eff", 2)], borrowed: &[("C01", "mw"), ("C03", "mw"), ("C07", "mw"), ("C11", "mw"), ("C11", "eff")], quick_runs: 240_000,
        rule: "non-trivial: some hook returned a verdict other than Continue" },
    PropSpec { id: "C13", families: &[("api", 5), ("eff", 2), ("sub", 1), ("stop", 1), ("two", 1)], borrowed: &[], quick_runs: 240_000,
        rule: "non-trivial: >=2 client threads had public API calls overlapping in time, one of them a shutdown, subscription or iterator operation" },
    PropSpec { id: "C14", families: &[("sub", 10)], borrowed: &[], quick_runs: 240_000,
        rule: "non-trivial: an iterator yielded >=1 item and its consumer overlapped a producer or stop()" },
    PropSpec { id: "C15", families: &[("stop", 8), ("sub", 2)], borrowed: &[("C11", "stop"), ("C09", "stop"), ("C10", "stop")], quick_runs: 240_000,
        rule: "non-trivial: a DroppableStore was dropped while a dispatch overlapped the drop or with backlog >= 1" },
    PropSpec { id: "C16", families: &[("sub", 5), ("core", 3), ("two", 2)], borrowed: &[], quick_runs: 240_000,
        rule: "non-trivial: a selector subscriber saw >=2 notifications of which at least one repeated the previous selected value" },
    PropSpec { id: "C17", families: &[("build", 9), ("two", 1)], borrowed: &[("C01", "build"), ("C05", "build"), ("C06", "build"), ("C07", "build"), ("C05", "two"), ("C06", "two")], quick_runs: 240_000,
        rule: "non-trivial: a builder call sequence in which some option was set more than once or an add_* followed a with_*" },
    PropSpec { id: "C18", families: &[("core", 3), ("bp", 3), ("mw", 2), ("eff", 2)], borrowed: &[], quick_runs: 240_000,
        rule: "non-trivial: the balance equations were evaluated after a clean stop with >=1 dropped, vetoed, rejected or effect-bearing action" },
    PropSpec { id: "C19", families: &[("two", 39), ("fleet", 1)], borrowed: &[("C01", "two"), ("C03", "two"), ("C04", "two"), ("C18", "two"), ("C08", "two"), ("C16", "two"), ("C09", "two"), ("C10", "two"), ("C05", "two"), ("C06", "two"), ("C11", "two"), ("C01", "fleet"), ("C03", "fleet"), ("C04", "fleet"), ("C11", "fleet"), ("C18", "fleet")], quick_runs: 160_000,
        rule: "non-trivial: operations on the two stores overlapped in time and one store was stopped or dropped while the other still had work" },
];

pub fn spec(id: &str) -> Option<&'static PropSpec> {
    PROPS.iter().find(|p| p.id == id)
}

pub fn counts_for(p: &PropSpec, v: &Violation, family: &str) -> bool {
    v.prop == p.id || p.borrowed.iter().any(|(bp, fam)| *bp == v.prop && *fam == family)
}

/// Premise of a borrowed clause that depends on the program: C12 speaks of effects that a
/// middleware left in the list, so C11's clauses in family eff (effects racing close()/stop(),
/// every effect kind) count for C12 only in the programs whose store has a middleware.
pub fn borrow_premise(p: &PropSpec, v: &Violation, family: &str, d: &Digest) -> bool {
    if p.id == "C12" && v.prop == "C11" && family == "eff" {
        return d.stores.iter().all(|sd| !sd.model.middlewares.is_empty());
    }
    true
}

fn calls_overlap(a: &Call, b: &Call) -> bool {
    a.inv < b.ret_or_max() && b.inv < a.ret_or_max()
}

/// probes: rare conditions derived from the history
pub fn probes(d: &Digest) -> Vec<&'static str> {
    let mut p = vec![];
    let mut add = |s: &'static str| {
        if !p.contains(&s) {
            p.push(s)
        }
    };
    for sd in &d.stores {
        let Some(dch) = sd.dchan else { continue };
        for e in d.ev {
            match &e.k {
                K::Block { on: BlockOn::ChanSend(c) } if *c == dch => add("dispatch_blocked_on_full"),
                K::ChFull { chan } if *chan == dch => match sd.model.policy {
                    Policy::DropOldest => add("dropped_oldest"),
                    Policy::DropLatest => add("dropped_latest"),
                    _ => {}
                },
                K::Timer { .. } => add("timer_fired"),
                K::Fault { kind } if kind == "spurious_wakeup" => add("spurious_wakeup"),
                K::Fault { kind } if kind == "weak_cas_fail" => add("weak_cas_fail"),
                K::Fault { kind } if kind == "spawn_eagain" => add("spawn_eagain"),
                K::Exit { panicked: true, .. } => add("worker_panicked"),
                _ => {}
            }
        }
        if let Some(pc) = sd.pool_chan {
            if d.ev.iter().any(|e| matches!(&e.k, K::ChSend { chan, .. } if *chan == pc)) {
                add("pool_channel_path");
            }
        }
        for &sc in &sd.shutdowns {
            let s = &d.calls[sc];
            if d.timer_in_call(s) {
                add("timer_fired_in_stop");
            }
            for &dc in &sd.dispatches {
                if calls_overlap(s, &d.calls[dc]) {
                    add("dispatch_overlaps_shutdown");
                }
            }
            // backlog at the time of the shutdown call
            let mut len = 0usize;
            for e in &d.ev[..s.inv] {
                match &e.k {
                    K::ChSend { chan, len: l } | K::ChRecv { chan, len: l } if *chan == dch => len = *l,
                    _ => {}
                }
            }
            if len >= 1 {
                add("shutdown_with_backlog");
            }
        }
    }
    for c in &d.calls {
        if let OpK::Unsub { .. } = c.op {
            for sd in &d.stores {
                if sd.insts.iter().any(|i| i.first < c.ret_or_max() && c.inv < i.last) {
                    add("unsubscribe_overlaps_pipeline");
                }
            }
        }
        if let OpK::DropIter { it } = c.op {
            let ended = d.ev[..c.inv].iter().any(|e| matches!(&e.k, K::NextR { it: i, item: None } if *i == it));
            if !ended {
                add("iter_dropped_before_end");
            }
        }
    }
    // scale probes: the sizes that the families long and fleet exist for were actually reached
    if d.regs.len() >= 65_536 {
        add("registrations_ge_65536");
    }
    for (s, sd) in d.stores.iter().enumerate() {
        let mut thrs: Vec<usize> = sd.dispatches.iter().map(|&c| d.calls[c].thr).filter(|t| *t < THUNK_THR).collect();
        thrs.sort_unstable();
        thrs.dedup();
        if thrs.len() >= 10 {
            add("producer_threads_ge_10");
        }
        if thrs.len() >= 17 {
            add("producer_threads_ge_17");
        }
        if sd.insts.len() >= 300 {
            add("actions_ge_300");
        }
        let nregs = d.regs.values().filter(|x| x.1 == s).count();
        if (17..1_000).contains(&nregs) {
            add("registrations_ge_17");
        }
        if let Some(dch) = sd.dchan {
            if d.ev.iter().any(|e| matches!(&e.k, K::ChSend { chan, len } if *chan == dch && *len >= 64)) {
                add("dispatch_queue_depth_ge_64");
            }
        }
    }
    if d.stores.iter().filter(|sd| sd.built == Some(true)).count() >= 40 {
        add("stores_ge_40");
    }
    p
}

pub fn nontrivial(prop: &str, d: &Digest) -> bool {
    let pr = probes(d);
    let has = |s: &str| pr.iter().any(|x| *x == s);
    let overlapping_dispatches = || {
        d.stores.iter().any(|sd| {
            sd.insts.len() >= 2
                && sd.dispatches.iter().any(|&a| {
                    sd.dispatches.iter().any(|&b| {
                        d.calls[a].thr != d.calls[b].thr && calls_overlap(&d.calls[a], &d.calls[b])
                    })
                })
        })
    };
    // (a script thread's calls follow one another, so per thread they are sorted by invocation and by
    // return: one binary search per other thread instead of a scan of all calls)
    let any_overlap = |f: &dyn Fn(&OpK) -> bool| {
        let mut by_thr: BTreeMap<usize, Vec<(usize, usize)>> = BTreeMap::new();
        for c in d.calls.iter().filter(|c| c.thr < THUNK_THR) {
            by_thr.entry(c.thr).or_default().push((c.inv, c.ret_or_max()));
        }
        if by_thr.len() < 2 {
            return false;
        }
        let sorted = by_thr.values().all(|v| v.windows(2).all(|w| w[0].1 <= w[1].0));
        if !sorted {
            return d.calls.iter().any(|a| f(&a.op) && d.calls.iter().any(|b| a.thr != b.thr && b.thr < THUNK_THR && a.thr < THUNK_THR && calls_overlap(a, b)));
        }
        d.calls.iter().any(|a| {
            a.thr < THUNK_THR
                && f(&a.op)
                && by_thr.iter().any(|(t, v)| {
                    *t != a.thr && {
                        let k = v.partition_point(|x| x.1 <= a.inv);
                        k < v.len() && v[k].0 < a.ret_or_max()
                    }
                })
        })
    };
    match prop {
        "C01" => overlapping_dispatches(),
        "C02" => d.stores.iter().any(|sd| {
            sd.dispatches.iter().any(|&a| {
                sd.dispatches.iter().any(|&b| d.calls[a].thr != d.calls[b].thr && d.calls[a].ret_or_max() < d.calls[b].inv)
            })
        }),
        "C03" => d.stores.iter().enumerate().any(|(s, sd)| {
            !crate::oracle::whole_run_direct_subs(d, s).is_empty()
                && sd.insts.iter().any(|i| d.notify_exp(i) == NotifyExp::Must)
                && sd.insts.iter().any(|i| d.notify_exp(i) == NotifyExp::MustNot)
        }),
        "C04" => has("dispatch_overlaps_shutdown") || has("shutdown_with_backlog"),
        "C05" => has("dispatch_blocked_on_full"),
        "C06" => has("dropped_oldest") || has("dropped_latest"),
        "C07" => d.stores.iter().any(|sd| {
            sd.insts.len() >= 2
                && sd.insts.iter().any(|i| {
                    let mut kinds = 0;
                    if i.evs.iter().any(|&e| matches!(d.ev[e].k, K::RedB { .. })) {
                        kinds += 1
                    }
                    if i.evs.iter().any(|&e| matches!(d.ev[e].k, K::MwB { .. })) {
                        kinds += 1
                    }
                    if i.evs.iter().any(|&e| matches!(d.ev[e].k, K::NotB { .. })) {
                        kinds += 1
                    }
                    kinds >= 2
                })
        }) && overlapping_dispatches(),
        "C08" => {
            d.ev.iter().any(|e| matches!(e.k, K::Read { .. }))
                || d.calls.iter().any(|c| {
                    matches!(c.op, OpK::GetState { .. })
                        && d.stores.iter().any(|sd| sd.insts.iter().any(|i| i.first < c.ret_or_max() && c.inv < i.last))
                })
        }
        "C09" => has("unsubscribe_overlaps_pipeline") || {
            let first_unsub = d.calls.iter().filter(|u| matches!(u.op, OpK::Unsub { .. })).map(|u| u.inv).min().unwrap_or(usize::MAX);
            d.regs.values().any(|(sub, s, ci)| {
                !matches!(d.sub_kind(*sub), SubKind::Selector)
                    && d.stores[*s].first_shutdown_inv.map(|f| d.calls[*ci].ret_or_max() < f).unwrap_or(false)
                    && !(first_unsub < d.stores[*s].first_shutdown_inv.unwrap())
            }) && d.stores.iter().any(|sd| sd.insts.len() >= 2)
        },
        "C10" => d.reg_chan.values().any(|ch| {
            d.ev.iter().any(|e| matches!(&e.k, K::ChFull { chan } if chan == ch) || matches!(&e.k, K::Block { on: BlockOn::ChanSend(c) } if c == ch))
        }),
        "C11" => d.ev.iter().any(|e| matches!(e.k, K::EffB { .. })) && d.stores.iter().any(|sd| sd.insts.len() >= 2),
        "C12" => d.ev.iter().any(|e| matches!(&e.k, K::MwE { verdict, .. } if *verdict != 0)),
        "C13" => any_overlap(&|o| matches!(o, OpK::Stop { .. } | OpK::Close { .. } | OpK::DropStore { .. } | OpK::Unsub { .. } | OpK::AddSub { .. } | OpK::Iter { .. } | OpK::DropIter { .. } | OpK::Drain { .. })),
        "C14" => d.ev.iter().any(|e| matches!(&e.k, K::NextR { item: Some(_), .. })),
        "C15" => d.calls.iter().any(|c| matches!(c.op, OpK::DropStore { .. }) && c.res == Some(Res::Unit))
            && (has("dispatch_overlaps_shutdown") || has("shutdown_with_backlog")),
        "C16" => {
            let mut ok = false;
            for (sub, cfg) in d.prog.subs.iter().enumerate() {
                if cfg.kind == SubKind::Selector {
                    let n = d.ev.iter().filter(|e| matches!(&e.k, K::SelCb { sub: s, .. } if *s == sub)).count();
                    let notifs: usize = d.stores.iter().map(|sd| sd.insts.iter().filter(|i| d.notify_exp(i) == NotifyExp::Must).count()).sum();
                    if n >= 1 && notifs > n {
                        ok = true;
                    }
                }
            }
            ok
        }
        "C17" => d.prog.stores.iter().any(|s| {
            let kinds: Vec<u8> = s.builder.iter().map(|c| match c {
                BCall::WithName(_) => 0,
                BCall::WithCapacity(_) => 1,
                BCall::WithPolicy(_) => 2,
                BCall::WithReducer(_) | BCall::WithReducers(_) | BCall::AddReducer(_) | BCall::WithoutReducer => 3,
                _ => 4,
            }).collect();
            (0..5).any(|k| kinds.iter().filter(|x| **x == k).count() >= 2)
        }),
        "C18" => d.stores.iter().any(|sd| sd.clean_stop.is_some())
            && (has("dropped_oldest") || has("dropped_latest")
                || d.ev.iter().any(|e| matches!(&e.k, K::MwE { verdict, .. } if *verdict != 0) || matches!(&e.k, K::RedE { eff: Some(_), .. }))
                || d.calls.iter().any(|c| matches!(c.op, OpK::Dispatch { .. }) && c.res == Some(Res::Err))),
        "C19" => d.stores.len() >= 2 && any_overlap(&|o| matches!(o, OpK::Stop { .. } | OpK::DropStore { .. })),
        _ => false,
    }
}
