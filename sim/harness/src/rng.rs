//! SplitMix64: the one PRNG of the harness (workload stream).
#[derive(Clone)]
pub struct Rng(pub u64);

impl Rng {
    pub fn new(seed: u64) -> Rng {
        Rng(seed)
    }
    pub fn next(&mut self) -> u64 {
        self.0 = self.0.wrapping_add(0x9E3779B97F4A7C15);
        let mut z = self.0;
        z = (z ^ (z >> 30)).wrapping_mul(0xBF58476D1CE4E5B9);
        z = (z ^ (z >> 27)).wrapping_mul(0x94D049BB133111EB);
        z ^ (z >> 31)
    }
    /// uniform in 0..n
    pub fn below(&mut self, n: u64) -> u64 {
        if n <= 1 {
            0
        } else {
            self.next() % n
        }
    }
    /// uniform in lo..=hi
    pub fn range(&mut self, lo: u64, hi: u64) -> u64 {
        lo + self.below(hi - lo + 1)
    }
    pub fn chance(&mut self, pct: u64) -> bool {
        self.below(100) < pct
    }
    pub fn pick<T: Clone>(&mut self, v: &[T]) -> T {
        v[self.below(v.len() as u64) as usize].clone()
    }
}

/// derive the seed of run `i` of a batch from the batch seed
pub fn run_seed(batch: u64, i: u64) -> u64 {
    let mut r = Rng(batch ^ i.wrapping_mul(0xD1B54A32D192ED03));
    r.next()
}
