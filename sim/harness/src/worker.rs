//! Worker: runs a chunk of run indices for one property and reports aggregated statistics.

use crate::digest::*;
use crate::model::*;
use crate::props::*;
use crate::rng::{run_seed, Rng};
use serde::{Deserialize, Serialize};
use std::collections::{BTreeMap, BTreeSet};

#[derive(Serialize, Deserialize, Clone, Debug, Default)]
pub struct VioRec {
    pub prop: String,
    pub clause: String,
    pub detail: String,
    pub known: Option<String>,
    pub family: String,
    pub run_index: u64,
    pub seed: u64,
}

#[derive(Serialize, Deserialize, Clone, Debug, Default)]
pub struct Stats {
    pub runs: u64,
    pub steps: u64,
    pub sim_ns: u64,
    pub switches: u64,
    pub events: u64,
    pub by_family: BTreeMap<String, u64>,
    pub schedulers: BTreeMap<String, u64>,
    pub faults: BTreeMap<String, u64>,
    pub probes: BTreeMap<String, u64>,
    pub inconclusive: BTreeMap<String, u64>,
    pub nontrivial: BTreeSet<u64>,
    pub schedules: BTreeSet<u64>,
    pub histories: BTreeSet<u64>,
    /// distinct abstract states (see abstract_states)
    #[serde(default)]
    pub abstract_states: BTreeSet<u64>,
    pub violations: Vec<VioRec>,
    pub violations_total: u64,
    pub known_seen: BTreeMap<String, u64>,
    pub other_props_seen: BTreeMap<String, u64>,
    pub determinism_rechecked: u64,
    pub determinism_mismatch: u64,
    pub samples: Vec<serde_json::Value>,
    pub faulty_runs: u64,
    pub threads_panicked: u64,
    /// (run index, history hash, decision-list hash) when VERIF_DUMP_HASHES is set
    #[serde(default)]
    pub run_hashes: Vec<(u64, u64, u64)>,
    /// set when the worker gave up its chunk early (too many threads leaked by deadlocked runs,
    /// or violations already in hand): the first run index it did not execute
    #[serde(default)]
    pub next_from: Option<u64>,
}

impl Stats {
    pub fn merge(&mut self, o: Stats) {
        self.runs += o.runs;
        self.steps += o.steps;
        self.sim_ns += o.sim_ns;
        self.switches += o.switches;
        self.events += o.events;
        for (k, v) in o.by_family {
            *self.by_family.entry(k).or_default() += v;
        }
        for (k, v) in o.schedulers {
            *self.schedulers.entry(k).or_default() += v;
        }
        for (k, v) in o.faults {
            *self.faults.entry(k).or_default() += v;
        }
        for (k, v) in o.probes {
            *self.probes.entry(k).or_default() += v;
        }
        for (k, v) in o.inconclusive {
            *self.inconclusive.entry(k).or_default() += v;
        }
        for (k, v) in o.known_seen {
            *self.known_seen.entry(k).or_default() += v;
        }
        for (k, v) in o.other_props_seen {
            *self.other_props_seen.entry(k).or_default() += v;
        }
        self.nontrivial.extend(o.nontrivial);
        self.schedules.extend(o.schedules);
        self.histories.extend(o.histories);
        self.abstract_states.extend(o.abstract_states);
        for v in o.violations {
            if self.violations.len() < 40 {
                self.violations.push(v);
            }
        }
        self.violations_total += o.violations_total;
        self.determinism_rechecked += o.determinism_rechecked;
        self.determinism_mismatch += o.determinism_mismatch;
        for s in o.samples {
            if self.samples.len() < 3 {
                self.samples.push(s);
            }
        }
        self.faulty_runs += o.faulty_runs;
        self.threads_panicked += o.threads_panicked;
        self.run_hashes.extend(o.run_hashes);
    }
}

pub const ALL_FAMILIES: [&str; 11] = ["core", "stop", "bp", "mw", "eff", "sub", "api", "build", "two", "long", "fleet"];

pub fn family_of(p: &PropSpec, batch_seed: u64, i: u64) -> &'static str {
    let total: u32 = p.families.iter().map(|f| f.1).sum();
    let mut r = Rng::new(batch_seed ^ 0xFA417 ^ i.wrapping_mul(0x2545F4914F6CDD1D));
    // every oracle runs on every run, so a share of each batch is spent in the families that were
    // not written for this property: violations hiding in scenarios nobody thought relevant
    if r.below(100) < 15 {
        return ALL_FAMILIES[r.below(ALL_FAMILIES.len() as u64) as usize];
    }
    let mut x = r.below(total as u64) as u32;
    for (f, w) in p.families {
        if x < *w {
            return f;
        }
        x -= w;
    }
    p.families[0].0
}

pub fn sample_json(rec: &RunRecord, i: u64) -> serde_json::Value {
    let hist: Vec<String> = rec.ev.iter().take(60).map(|e| format!("t{} {:?}", e.tid, e.k)).collect();
    serde_json::json!({
        "run_index": i,
        "seed": rec.seed,
        "family": rec.prog.family,
        "knobs": rec.prog.knobs,
        "program": { "stores": rec.prog.stores, "subs": rec.prog.subs, "threads": rec.prog.threads },
        "first_decisions": rec.out.decisions.iter().take(40).collect::<Vec<_>>(),
        "steps": rec.out.steps,
        "history_excerpt": hist,
        "history_len": rec.ev.len(),
    })
}

/// Abstract states visited by a run, recomputed from its history after every event: per store
/// (dispatch-queue length, dispatch calls in flight, reducer phase, shutdown begun, shutdown
/// returned, live pool workers, iterator/channeled queues non-empty).  The evidence reports how
/// many distinct tuples a batch reached.
pub fn abstract_states(d: &Digest, out: &mut BTreeSet<u64>) {
    use crate::world::K;
    let call_of: std::collections::HashMap<(usize, usize), usize> = d.calls.iter().enumerate().rev().map(|(i, c)| ((c.thr, c.idx), i)).collect();
    let sub_chans: std::collections::HashSet<u32> = d.reg_chan.values().chain(d.iter_chan.values()).cloned().collect();
    for (s, sd) in d.stores.iter().enumerate() {
        let (mut qlen, mut inflight, mut phase, mut closing, mut closed, mut workers, mut subq) = (0usize, 0i32, 0u8, false, false, 0i32, 0usize);
        let prefix = format!("{}-pool", sd.model.name);
        let mut pool_tids: Vec<usize> = vec![];
        for e in d.ev {
            match &e.k {
                K::ChSend { chan, len } | K::ChRecv { chan, len } if Some(*chan) == sd.dchan => qlen = *len,
                K::ChSend { chan, len } | K::ChRecv { chan, len } if sub_chans.contains(chan) => subq = (*len).min(2),
                K::Inv { op: crate::world::OpK::Dispatch { store, .. }, .. } if *store == s => inflight += 1,
                K::Ret { thr, idx, .. } => {
                    if let Some(c) = call_of.get(&(*thr, *idx)).map(|&i| &d.calls[i]) {
                        match c.op {
                            crate::world::OpK::Dispatch { store, .. } if store == s => inflight -= 1,
                            crate::world::OpK::Stop { store } | crate::world::OpK::DropStore { store } if store == s => closed = true,
                            _ => {}
                        }
                    }
                }
                K::Inv { op: crate::world::OpK::Stop { store } | crate::world::OpK::Close { store } | crate::world::OpK::DropStore { store }, .. } if *store == s => closing = true,
                K::MwB { store, hook, .. } if *store == s => phase = 1 + *hook,
                K::RedB { store, .. } if *store == s => phase = 4,
                K::NotB { act, .. } if d.act_store.get(act) == Some(&s) => phase = 5,
                K::RedE { store, .. } | K::MwE { store, .. } if *store == s => phase = 6,
                K::Spawn { tid, name: Some(n), .. } if n.starts_with(&prefix) => {
                    workers += 1;
                    pool_tids.push(*tid);
                }
                K::Exit { tid, .. } if pool_tids.contains(tid) => workers -= 1,
                _ => continue,
            }
            let t = (s, qlen.min(17), inflight.clamp(0, 4), phase, closing, closed, workers.clamp(0, 6), subq);
            use std::hash::{Hash, Hasher};
            let mut h = std::collections::hash_map::DefaultHasher::new();
            t.hash(&mut h);
            out.insert(h.finish());
        }
    }
}

pub fn known_findings() -> BTreeMap<String, (String, String)> {
    // id -> (status, what_fails)
    let mut m = BTreeMap::new();
    if let Ok(s) = std::fs::read_to_string("/verif/known_findings.json") {
        if let Ok(v) = serde_json::from_str::<serde_json::Value>(&s) {
            if let Some(a) = v.get("findings").and_then(|x| x.as_array()) {
                for f in a {
                    let id = f.get("id").and_then(|x| x.as_str()).unwrap_or("").to_string();
                    let st = f.get("status").and_then(|x| x.as_str()).unwrap_or("").to_string();
                    let wf = f.get("what_fails").and_then(|x| x.as_str()).unwrap_or("").to_string();
                    m.insert(id, (st, wf));
                }
            }
        }
    }
    m
}

/// real-time budget of one run's child process (a run takes well under a millisecond; a child that
/// is still there after this long is blocked on something the simulator does not control)
const RUN_TIMEOUT_MS: u64 = 30_000;

/// runs per child process: process creation is amortised over a few runs; whatever a run leaves
/// behind (parked threads, process-wide state of a changed tree) lives for at most this many runs,
/// and a violation found in any but the first run of a child is confirmed in a fresh process
const RUNS_PER_CHILD: u64 = 8;

fn child_runs(prop: &str, batch_seed: u64, lo: u64, hi: u64, fixed_family: Option<&str>) -> Result<Vec<Stats>, String> {
    let timeout = RUN_TIMEOUT_MS + 2_000 * (hi - lo);
    match crate::isolate::in_child(
        || {
            let v: Vec<Stats> = (lo..hi).map(|i| run_one(prop, batch_seed, i, fixed_family)).collect();
            serde_json::to_vec(&v).unwrap_or_default()
        },
        timeout,
    ) {
        crate::isolate::ChildEnd::Done(bytes) => serde_json::from_slice::<Vec<Stats>>(&bytes).map_err(|e| format!("runs {lo}..{hi}: unreadable result from the runs' process: {e}")),
        crate::isolate::ChildEnd::TimedOut => Err(format!(
            "runs {lo}..{hi} made no progress for {} s: the code under test blocks outside the simulator's control (real lock, real sleep or I/O?)",
            timeout / 1000
        )),
        crate::isolate::ChildEnd::Crashed(why) => Err(format!("runs {lo}..{hi}: {why}")),
    }
}

pub fn run_chunk(prop: &str, batch_seed: u64, from: u64, to: u64, fixed_family: Option<&str>) -> Stats {
    let isolate = std::env::var("VERIF_NO_FORK").is_err();
    let mut st = Stats::default();
    let fail = |why: String| -> ! {
        eprintln!("simcheck: harness error: {why}");
        std::process::exit(2)
    };
    let mut lo = from;
    while lo < to {
        if st.violations_total >= 8 {
            // the batch stops anyway once a violation has been reported
            st.next_from = Some(lo);
            break;
        }
        let hi = (lo + RUNS_PER_CHILD).min(to);
        if !isolate {
            for i in lo..hi {
                st.merge(run_one(prop, batch_seed, i, fixed_family));
            }
            lo = hi;
            continue;
        }
        let results = child_runs(prop, batch_seed, lo, hi, fixed_family).unwrap_or_else(|e| fail(e));
        for (k, mut one) in results.into_iter().enumerate() {
            let i = lo + k as u64;
            if k > 0 && one.violations_total > 0 {
                // not the first run of its process: does it say the same in a fresh one?
                let again = child_runs(prop, batch_seed, i, i + 1, fixed_family).unwrap_or_else(|e| fail(e)).pop().unwrap_or_default();
                let same = |a: &Stats, b: &Stats| a.violations.iter().any(|x| b.violations.iter().any(|y| x.prop == y.prop && x.clause == y.clause));
                if again.violations_total > 0 && same(&one, &again) {
                    one = again;
                } else {
                    // depends on what earlier runs left behind in the process: the code under test
                    // keeps process-wide state.  Not reported; the fresh-process result counts.
                    one = again;
                    *one.inconclusive.entry("differs_in_a_fresh_process_(process_wide_state_in_the_code_under_test)".into()).or_default() += 1;
                }
            }
            // the same run in a second fresh process must give the same history and schedule
            if i % 256 == 0 {
                if let Ok(mut two) = child_runs(prop, batch_seed, i, i + 1, fixed_family) {
                    if let Some(two) = two.pop() {
                        st.determinism_rechecked += 1;
                        if k == 0 && (two.histories != one.histories || two.schedules != one.schedules) {
                            st.determinism_mismatch += 1;
                        }
                    }
                }
            }
            st.merge(one);
        }
        lo = hi;
    }
    st
}

/// one run and everything the batch wants to know about it
pub fn run_one(prop: &str, batch_seed: u64, i: u64, fixed_family: Option<&str>) -> Stats {
    let p = spec(prop).expect("unknown property");
    let known = known_findings();
    let hunt = std::env::var("VERIF_HUNT").ok();
    let dump = std::env::var("VERIF_DUMP_HASHES").is_ok();
    let mut st = Stats::default();
    {
        let fam = fixed_family.unwrap_or_else(|| family_of(p, batch_seed, i));
        let seed = run_seed(batch_seed ^ fnv(fam.as_bytes()), i);
        let prog = crate::gen::generate(fam, seed);
        let rec = crate::exec::run_program(&prog, seed, None, false);
        st.runs += 1;
        st.steps += rec.out.steps;
        st.sim_ns += rec.out.clock_ns;
        st.switches += rec.out.context_switches;
        st.events += rec.ev.len() as u64;
        st.threads_panicked += rec.out.threads_panicked as u64;
        *st.by_family.entry(fam.to_string()).or_default() += 1;
        let sk = match prog.knobs.sched {
            Sched::Uniform => "uniform".to_string(),
            Sched::Sticky(p) => format!("sticky({})", p as f64 / 1000.0),
            Sched::Pct { d, .. } => format!("pct(d={d})"),
        };
        *st.schedulers.entry(sk).or_default() += 1;
        if prog.faulty {
            st.faulty_runs += 1;
        }
        for (k, n) in &rec.out.faults {
            *st.faults.entry(k.to_string()).or_default() += n;
        }
        match rec.out.end {
            simrt::End::StepLimit => *st.inconclusive.entry("step_limit".into()).or_default() += 1,
            simrt::End::ReplayDiverged => *st.inconclusive.entry("replay_diverged".into()).or_default() += 1,
            _ => {}
        }
        let hh = rec.history_hash();
        st.schedules.insert(rec.out.schedule_hash);
        st.histories.insert(hh);
        if dump {
            let dh = crate::model::fnv(&rec.out.decisions.iter().flat_map(|d| d.to_le_bytes()).collect::<Vec<u8>>());
            st.run_hashes.push((i, hh, dh));
        }
        // determinism re-check on a sample (in the same process only when runs are not isolated;
        // isolated runs are re-checked by a second child, see run_chunk)
        if i % 256 == 0 && std::env::var("VERIF_NO_FORK").is_ok() {
            let rec2 = crate::exec::run_program(&prog, seed, None, false);
            st.determinism_rechecked += 1;
            if rec2.history_hash() != hh || rec2.out.decisions != rec.out.decisions {
                st.determinism_mismatch += 1;
            }
        }
        let d = Digest::new(&rec);
        abstract_states(&d, &mut st.abstract_states);
        for pr in probes(&d) {
            *st.probes.entry(pr.to_string()).or_default() += 1;
        }
        // scripted fault kinds that fired
        for e in &rec.ev {
            match &e.k {
                crate::world::K::EffE { panicked: true, .. } => *st.faults.entry("effect_panic".into()).or_default() += 1,
                crate::world::K::MwErr { .. } => *st.faults.entry("middleware_err".into()).or_default() += 1,
                crate::world::K::Timer { .. } => *st.faults.entry("timer_expiry".into()).or_default() += 1,
                _ => {}
            }
        }
        if d.complete && nontrivial(prop, &d) {
            st.nontrivial.insert(prog.hash() ^ hh.rotate_left(17));
        }
        if !d.complete && rec.out.end == simrt::End::Deadlock {
            *st.inconclusive.entry("deadlocked_run_excluded_from_other_oracles".into()).or_default() += 1;
        }
        // (a sample is meant to be read: the scale families' programs of thousands of operations are not)
        if st.samples.len() < 2 && d.complete && prog.threads.iter().map(|t| t.len()).sum::<usize>() <= 400 && nontrivial(prop, &d) {
            st.samples.push(sample_json(&rec, i));
        }
        for v in crate::oracle::check_all(&d) {
            // a deadlock that matches no recorded finding stops the store for good: whatever the
            // property under check promises for the actions in flight fails with it
            let foreign_deadlock = v.prop == "C13" && (v.clause == "deadlock" || v.clause == "livelock") && p.id != "C13";
            if foreign_deadlock && v.known.is_some() {
                continue;
            }
            if !foreign_deadlock && !(counts_for(p, &v, fam) && borrow_premise(p, &v, fam, &d)) {
                *st.other_props_seen.entry(v.prop.to_string()).or_default() += 1;
                continue;
            }
            if let Some(h) = &hunt {
                // triage mode: only the named finding signature counts
                if v.known != Some(h.as_str()) {
                    continue;
                }
            } else if let Some(k) = v.known {
                if known.get(k).map(|x| x.0 == "known").unwrap_or(false) {
                    *st.known_seen.entry(k.to_string()).or_default() += 1;
                    continue;
                }
            }
            st.violations_total += 1;
            if st.violations.len() < 10 {
                st.violations.push(VioRec {
                    prop: v.prop.to_string(),
                    clause: v.clause.to_string(),
                    detail: v.detail.clone(),
                    known: v.known.map(|s| s.to_string()),
                    family: fam.to_string(),
                    run_index: i,
                    seed,
                });
            }
        }
    }
    st
}
