//! Scripted user components (reducers, middlewares, subscribers, selectors, effects), the
//! recorded history, and the interpreter that drives the public API of the real store.

use crate::model::*;
use rs_store::{
    FnSubscriber, BackpressurePolicy, DispatchOp, Dispatcher, DroppableStore, Effect, Middleware, MiddlewareOp,
    Reducer, Selector, SelectorSubscriber, Store, StoreBuilder, StoreError, StoreImpl, Subscriber,
    Subscription,
};
use simrt::sync::{Condvar, Mutex};
use std::collections::BTreeMap;
use std::sync::{Arc, Mutex as StdMutex, Weak};
use std::time::Duration;

pub const THUNK_THR: usize = 10_000;
/// pseudo client-thread index of dispatches made by middleware hooks of store s: MW_THR + s
pub const MW_THR: usize = 9_000;
/// pseudo client-thread index of a stop() of another store made by effect e: XSTOP_THR + e
pub const XSTOP_THR: usize = 11_000;
/// pseudo client-thread index of store calls made by subscriber s from inside its callback: XCALL_THR + s
pub const XCALL_THR: usize = 12_000;

#[derive(Clone, Debug, PartialEq, Eq, Hash)]
pub enum BlockOn {
    Mutex,
    Condvar,
    ChanSend(u32),
    ChanRecv(u32),
    Thread(usize),
    Sleep,
    Settle,
    AllDone,
}

impl From<simrt::Obj> for BlockOn {
    fn from(o: simrt::Obj) -> Self {
        match o {
            simrt::Obj::Mutex(_) => BlockOn::Mutex,
            simrt::Obj::Condvar(_) => BlockOn::Condvar,
            simrt::Obj::ChanSend(c) => BlockOn::ChanSend(c),
            simrt::Obj::ChanRecv(c) => BlockOn::ChanRecv(c),
            simrt::Obj::Thread(t) => BlockOn::Thread(t),
            simrt::Obj::Sleep => BlockOn::Sleep,
            simrt::Obj::Settle => BlockOn::Settle,
            simrt::Obj::AllDone => BlockOn::AllDone,
            simrt::Obj::Select => BlockOn::Condvar,
        }
    }
}

#[derive(Clone, Debug, PartialEq, Eq, Hash, Default)]
pub struct MetricsLite {
    pub received: usize,
    pub dropped: usize,
    pub reduced: usize,
    pub effect_issued: usize,
    pub mw_executed: usize,
    pub state_notified: usize,
    pub sub_notified: usize,
    pub errors: usize,
}

#[derive(Clone, Debug, PartialEq, Eq, Hash)]
pub enum Res {
    Unit,
    Ok,
    Err,
    State { n: u32, h: u64, sel: u8 },
    Metrics(MetricsLite),
    Built(bool),
    Skipped,
}

#[derive(Clone, Debug, PartialEq, Eq, Hash)]
pub enum OpK {
    Dispatch { store: usize, act: ActId, via: Via },
    Thunk { store: usize, eff: EffId },
    Task { store: usize, eff: EffId },
    GetState { store: usize },
    GetMetrics { store: usize },
    AddSub { store: usize, sub: usize, reg: usize },
    Unsub { reg: usize },
    Iter { store: usize, it: usize },
    Next { it: usize },
    Drain { it: usize },
    DropIter { it: usize },
    AddReducer { store: usize, tag: u32 },
    AddMiddleware { store: usize, tag: u32 },
    Close { store: usize },
    Stop { store: usize },
    DropStore { store: usize },
    Start { thread: usize },
    Join { thread: usize },
    Settle,
    Snap,
    Open { gate: usize },
    Sleep,
    Build { store: usize },
}

impl std::hash::Hash for Via {
    fn hash<H: std::hash::Hasher>(&self, state: &mut H) {
        (*self as u8).hash(state)
    }
}

#[derive(Clone, Debug, PartialEq, Eq, Hash)]
pub enum K {
    Inv { thr: usize, idx: usize, op: OpK },
    Ret { thr: usize, idx: usize, res: Res },
    RedB { store: usize, tag: u32, act: ActId, n: u32, h: u64 },
    RedE { store: usize, tag: u32, act: ActId, n: u32, h: u64, keep: bool, eff: Option<EffId> },
    MwB { store: usize, tag: u32, hook: u8, act: ActId, n: u32, h: u64, neff: usize },
    MwE { store: usize, tag: u32, hook: u8, act: ActId, verdict: u8, removed: usize },
    MwErr { store: usize, tag: u32 },
    NotB { sub: usize, act: ActId, n: u32, h: u64, sel: u8 },
    NotE { sub: usize, act: ActId },
    Unsub { sub: usize },
    SelCb { sub: usize, val: u8, act: ActId },
    EffB { eff: EffId },
    EffE { eff: EffId, panicked: bool },
    /// get_state() from inside a callback: site 0..2 = middleware hook, 3 = subscriber
    Read { store: usize, n: u32, h: u64, site: u8 },
    /// one call of Iterator::next
    NextB { it: usize },
    NextR { it: usize, item: Option<(u32, u64, ActId)> },
    Snap { tag: u32, blocked: Vec<(usize, BlockOn)> },
    // seam events
    Spawn { tid: usize, parent: usize, name: Option<String> },
    SpawnFail { name: Option<String> },
    Exit { tid: usize, panicked: bool },
    ChanNew { chan: u32, cap: Option<usize> },
    ChSend { chan: u32, len: usize },
    ChRecv { chan: u32, len: usize },
    ChFull { chan: u32 },
    Block { on: BlockOn },
    Timer { on: BlockOn, deadline_ns: u64 },
    Fault { kind: String },
    /// the scenario's main thread found internal threads that can never finish
    Leaked { threads: Vec<(usize, BlockOn)> },
}

#[derive(Clone, Debug, PartialEq, Eq, Hash)]
pub struct Ev {
    pub tid: usize,
    pub t: u64,
    pub k: K,
}

#[derive(Default)]
pub struct Hist {
    pub ev: StdMutex<Vec<Ev>>,
}

impl Hist {
    pub fn push(&self, tid: usize, t: u64, k: K) {
        self.ev.lock().unwrap().push(Ev { tid, t, k });
    }
    pub fn sink(self: &Arc<Hist>) -> simrt::rt::EventSink {
        let h = self.clone();
        Arc::new(move |e: &simrt::SeamEvent, t: u64| {
            use simrt::SeamEvent as S;
            let (tid, k) = match e {
                S::Spawn { tid, name, parent } => (*tid, K::Spawn { tid: *tid, parent: *parent, name: name.clone() }),
                S::SpawnFailed { parent, name } => (*parent, K::SpawnFail { name: name.clone() }),
                S::Exit { tid, panicked } => (*tid, K::Exit { tid: *tid, panicked: *panicked }),
                S::ChanCreate { chan, cap, tid } => (*tid, K::ChanNew { chan: *chan, cap: *cap }),
                S::ChanSend { chan, tid, len_after } => (*tid, K::ChSend { chan: *chan, len: *len_after }),
                S::ChanRecv { chan, tid, len_after } => (*tid, K::ChRecv { chan: *chan, len: *len_after }),
                S::ChanFull { chan, tid } => (*tid, K::ChFull { chan: *chan }),
                S::Block { tid, obj } => (*tid, K::Block { on: (*obj).into() }),
                S::TimerFired { tid, obj, deadline_ns } => {
                    (*tid, K::Timer { on: (*obj).into(), deadline_ns: *deadline_ns })
                }
                S::Fault { kind, tid } => (*tid, K::Fault { kind: kind.to_string() }),
            };
            h.push(tid, t, k);
        })
    }
}

pub struct Gate {
    m: Mutex<u64>,
    cv: Condvar,
}

impl Gate {
    fn new() -> Gate {
        Gate { m: Mutex::new(0), cv: Condvar::new() }
    }
    pub fn take(&self) {
        let mut g = self.m.lock().unwrap();
        while *g == 0 {
            g = self.cv.wait(g).unwrap();
        }
        *g -= 1;
    }
    pub fn open(&self, n: u64) {
        let mut g = self.m.lock().unwrap();
        *g = g.saturating_add(n);
        drop(g);
        self.cv.notify_all();
    }
}

type StoreArc = Arc<StoreImpl<St, Act>>;
type SubObj = Arc<dyn Subscriber<St, Act> + Send + Sync>;
type IterBox = Box<dyn Iterator<Item = (St, Act)> + Send>;

pub struct World {
    pub prog: Program,
    pub hist: Arc<Hist>,
    stores: Vec<StdMutex<Option<StoreArc>>>,
    droppables: Vec<StdMutex<Option<DroppableStore<St, Act>>>>,
    gates: Vec<Gate>,
    handles: Vec<StdMutex<Option<Box<dyn Subscription>>>>,
    iters: Vec<StdMutex<Option<IterBox>>>,
    sub_objs: Vec<StdMutex<Option<SubObj>>>,
    joins: Vec<StdMutex<Option<simrt::thread::JoinHandle<()>>>>,
    pub act_store: BTreeMap<ActId, usize>,
    mw_calls: std::sync::atomic::AtomicUsize,
    /// per store: a client thread has invoked close()/stop()/drop (harness-side flag, no scheduling point)
    shut_invoked: Vec<std::sync::atomic::AtomicBool>,
    /// per subscriber: number of store calls made from inside its callbacks so far
    sub_calls: Vec<std::sync::atomic::AtomicUsize>,
}

fn to_policy(p: Policy) -> BackpressurePolicy {
    match p {
        Policy::Block => BackpressurePolicy::BlockOnFull,
        Policy::DropOldest => BackpressurePolicy::DropOldest,
        Policy::DropLatest => BackpressurePolicy::DropLatest,
    }
}

/// which store an action belongs to: the store it is dispatched to, follow-ups inherit
pub fn act_store_map(p: &Program) -> BTreeMap<ActId, usize> {
    let mut m = BTreeMap::new();
    fn eff_acts(e: &EffSpec, store: usize, m: &mut BTreeMap<ActId, usize>) {
        match &e.kind {
            EffKind::Action(a) => {
                m.insert(*a, store);
            }
            EffKind::Thunk(v) => {
                for a in v {
                    m.insert(*a, store);
                }
            }
            _ => {}
        }
    }
    for t in &p.threads {
        for op in t {
            match op {
                Op::Dispatch { store, act, .. } => {
                    m.insert(*act, *store);
                }
                Op::Thunk { store, eff } | Op::Task { store, eff } => eff_acts(eff, *store, &mut m),
                _ => {}
            }
        }
    }
    for sc in &p.subs {
        if let Some((target, map)) = &sc.forward {
            for b in map.values() {
                m.insert(*b, *target);
            }
        }
    }
    // follow-ups reachable through scripts: iterate to a fixpoint (chains are short)
    for _ in 0..8 {
        let mut add = vec![];
        for (a, s) in m.iter() {
            if let Some(sc) = p.acts.get(a) {
                for r in sc.red.values() {
                    if let Some(e) = &r.eff {
                        add.push((e.clone(), *s));
                    }
                }
                for mw in sc.mw.values() {
                    if let Some(e) = &mw.thunk {
                        add.push((e.clone(), *s));
                    }
                    if let Some(b) = mw.dispatch {
                        add.push((EffSpec { id: 0, kind: EffKind::Action(b), panic: false, gate: None, sleep_ms: 0 }, *s));
                    }
                }
            }
        }
        let before = m.len();
        for (e, s) in add {
            eff_acts(&e, s, &mut m);
        }
        if m.len() == before {
            break;
        }
    }
    m
}

struct ScriptedReducer {
    w: Weak<World>,
    store: usize,
    tag: u32,
}

impl Reducer<St, Act> for ScriptedReducer {
    fn reduce(&self, state: &St, action: &Act) -> DispatchOp<St, Act> {
        let Some(w) = self.w.upgrade() else {
            return DispatchOp::Keep(state.clone(), None);
        };
        w.enter_callback();
        w.log(K::RedB { store: self.store, tag: self.tag, act: action.id, n: state.n, h: state.h });
        if let Some((tag, gate)) = w.prog.stores[self.store].stepper {
            if tag == self.tag {
                w.gates[gate].take();
            }
        }
        let asc = w.prog.acts.get(&action.id);
        let sc = asc.and_then(|a| a.red.get(&self.tag)).cloned().unwrap_or_default();
        if let Some(g) = sc.gate {
            w.gates[g].take();
        }
        if sc.sleep_ms > 0 {
            simrt::thread::sleep(Duration::from_millis(sc.sleep_ms as u64));
        }
        let new = St {
            n: state.n + 1,
            h: mix(state.h, action.id, self.tag),
            sel: asc.map(|a| a.sel).unwrap_or(0),
        };
        let eff_id = sc.eff.as_ref().map(|e| e.id);
        let eff = sc.eff.map(|e| make_effect(&w, self.store, e));
        w.log(K::RedE {
            store: self.store,
            tag: self.tag,
            act: action.id,
            n: new.n,
            h: new.h,
            keep: sc.keep,
            eff: eff_id,
        });
        if sc.keep {
            DispatchOp::Keep(new, eff)
        } else {
            DispatchOp::Dispatch(new, eff)
        }
    }
}

fn effect_body(w: &Arc<World>, store: usize, spec: &EffSpec, disp: Option<Box<dyn Dispatcher<Act>>>) {
    w.enter_callback();
    w.log(K::EffB { eff: spec.id });
    if let Some(g) = spec.gate {
        w.gates[g].take();
    }
    if spec.sleep_ms > 0 {
        simrt::thread::sleep(Duration::from_millis(spec.sleep_ms as u64));
    }
    if let (EffKind::Thunk(fups), Some(d)) = (&spec.kind, &disp) {
        for (k, a) in fups.iter().enumerate() {
            let thr = THUNK_THR + spec.id as usize;
            w.log(K::Inv { thr, idx: k, op: OpK::Dispatch { store, act: *a, via: Via::Thunk } });
            let r = d.dispatch(Act { id: *a });
            w.log(K::Ret { thr, idx: k, res: if r.is_ok() { Res::Ok } else { Res::Err } });
        }
    }
    drop(disp);
    if let EffKind::StopOther { store: other } = &spec.kind {
        let thr = XSTOP_THR + spec.id as usize;
        let is_drop = w.droppables[*other].lock().unwrap().is_some();
        w.log(K::Inv { thr, idx: 0, op: if is_drop { OpK::DropStore { store: *other } } else { OpK::Stop { store: *other } } });
        w.shut_invoked[*other].store(true, std::sync::atomic::Ordering::SeqCst);
        // the victim's DroppableStore is dropped here if it has one, else its handle is stopped
        let dropped = w.droppables[*other].lock().unwrap().take();
        let res = match dropped {
            Some(d) => {
                drop(d);
                Res::Unit
            }
            None => match w.store(*other) {
                Some(o) => {
                    o.stop();
                    Res::Unit
                }
                None => Res::Skipped,
            },
        };
        w.log(K::Ret { thr, idx: 0, res });
    }
    if spec.panic {
        w.log(K::EffE { eff: spec.id, panicked: true });
        std::panic::resume_unwind(Box::new("scripted effect panic"));
    }
    w.log(K::EffE { eff: spec.id, panicked: false });
}

fn make_effect(w: &Arc<World>, store: usize, spec: EffSpec) -> Effect<Act> {
    let wk = Arc::downgrade(w);
    match spec.kind.clone() {
        EffKind::Action(a) => Effect::Action(Act { id: a }),
        EffKind::Task | EffKind::StopOther { .. } => Effect::Task(Box::new(move || {
            if let Some(w) = wk.upgrade() {
                effect_body(&w, store, &spec, None);
            }
        })),
        EffKind::Thunk(_) => Effect::Thunk(make_thunk(wk, store, spec)),
        EffKind::Function => Effect::Function(
            format!("f{}", spec.id),
            Box::new(move || {
                if let Some(w) = wk.upgrade() {
                    effect_body(&w, store, &spec, None);
                }
                Ok(Box::new(()) as Box<dyn std::any::Any + Send>)
            }),
        ),
    }
}

fn make_thunk(
    wk: Weak<World>,
    store: usize,
    spec: EffSpec,
) -> Box<dyn FnOnce(Box<dyn Dispatcher<Act>>) + Send> {
    Box::new(move |d| {
        if let Some(w) = wk.upgrade() {
            effect_body(&w, store, &spec, Some(d));
        }
    })
}

struct ScriptedMiddleware {
    w: Weak<World>,
    store: usize,
    tag: u32,
}

impl ScriptedMiddleware {
    fn hook(
        &self,
        hook: u8,
        action: &Act,
        state: &St,
        effects: Option<&mut Vec<Effect<Act>>>,
        dispatcher: Arc<dyn Dispatcher<Act>>,
    ) -> Result<MiddlewareOp, StoreError> {
        let Some(w) = self.w.upgrade() else {
            return Ok(MiddlewareOp::ContinueAction);
        };
        let neff = effects.as_ref().map(|e| e.len()).unwrap_or(0);
        w.enter_callback();
        w.log(K::MwB { store: self.store, tag: self.tag, hook, act: action.id, n: state.n, h: state.h, neff });
        if hook == 0 {
            if let Some((tag, gate)) = w.prog.stores[self.store].stepper {
                if tag == self.tag && model_reducers(&w.prog.stores[self.store]).is_empty() {
                    w.gates[gate].take();
                }
            }
        }
        let sc = w
            .prog
            .acts
            .get(&action.id)
            .and_then(|a| a.mw.get(&self.tag))
            .cloned()
            .unwrap_or_default();
        if sc.read[hook as usize] {
            if let Some(s) = w.store(self.store) {
                let st = s.get_state();
                w.log(K::Read { store: self.store, n: st.n, h: st.h, site: hook });
            }
        }
        if hook == 0 {
            if let Some(t) = sc.thunk.clone() {
                dispatcher.dispatch_thunk(make_thunk(self.w.clone(), self.store, t));
            }
            if let Some(b) = sc.dispatch {
                let idx = w.mw_calls.fetch_add(1, std::sync::atomic::Ordering::Relaxed);
                let thr = MW_THR + self.store;
                w.log(K::Inv { thr, idx, op: OpK::Dispatch { store: self.store, act: b, via: Via::Disp } });
                let r = dispatcher.dispatch(Act { id: b });
                w.log(K::Ret { thr, idx, res: if r.is_ok() { Res::Ok } else { Res::Err } });
            }
        }
        let mut removed = 0;
        if let Some(effects) = effects {
            for &pos in &sc.remove {
                if pos < effects.len() {
                    drop(effects.remove(pos));
                    removed += 1;
                }
            }
        }
        let v = sc.verdict[hook as usize];
        w.log(K::MwE { store: self.store, tag: self.tag, hook, act: action.id, verdict: v as u8, removed });
        match v {
            Verdict::Continue => Ok(MiddlewareOp::ContinueAction),
            Verdict::Done => Ok(MiddlewareOp::DoneAction),
            Verdict::Break => Ok(MiddlewareOp::BreakChain),
            Verdict::Err => Err(StoreError::MiddlewareError(format!("scripted {}", self.tag))),
        }
    }
}

pub fn model_reducers(c: &StoreCfg) -> Vec<u32> {
    builder_model(&c.builder).reducers
}

impl Middleware<St, Act> for ScriptedMiddleware {
    fn before_reduce(
        &self,
        action: &Act,
        state: &St,
        dispatcher: Arc<dyn Dispatcher<Act>>,
    ) -> Result<MiddlewareOp, StoreError> {
        self.hook(0, action, state, None, dispatcher)
    }
    fn before_effect(
        &self,
        action: &Act,
        state: &St,
        effects: &mut Vec<Effect<Act>>,
        dispatcher: Arc<dyn Dispatcher<Act>>,
    ) -> Result<MiddlewareOp, StoreError> {
        self.hook(1, action, state, Some(effects), dispatcher)
    }
    fn before_dispatch(
        &self,
        action: &Act,
        state: &St,
        dispatcher: Arc<dyn Dispatcher<Act>>,
    ) -> Result<MiddlewareOp, StoreError> {
        self.hook(2, action, state, None, dispatcher)
    }
    fn on_error(&self, _error: StoreError) {
        if let Some(w) = self.w.upgrade() {
            w.log(K::MwErr { store: self.store, tag: self.tag });
        }
    }
}

struct ScriptedSub {
    w: Weak<World>,
    sub: usize,
}

impl Subscriber<St, Act> for ScriptedSub {
    fn on_notify(&self, state: &St, action: &Act) {
        let Some(w) = self.w.upgrade() else { return };
        w.enter_callback();
        w.log(K::NotB { sub: self.sub, act: action.id, n: state.n, h: state.h, sel: state.sel });
        let cfg = &w.prog.subs[self.sub];
        if cfg.read_state {
            if let Some(&s) = w.act_store.get(&action.id) {
                if let Some(st) = w.store(s) {
                    let v = st.get_state();
                    w.log(K::Read { store: s, n: v.n, h: v.h, site: 3 });
                }
            }
        }
        if let Some(g) = cfg.gate {
            w.gates[g].take();
        }
        if cfg.sleep_ms > 0 {
            simrt::thread::sleep(Duration::from_millis(cfg.sleep_ms as u64));
        }
        // calls into a store from inside the callback, logged like client calls of a pseudo thread
        if let Some((trigger, reg)) = cfg.unsub_other {
            if trigger == action.id {
                let thr = XCALL_THR + self.sub;
                let idx = w.sub_calls[self.sub].fetch_add(1, std::sync::atomic::Ordering::Relaxed);
                w.log(K::Inv { thr, idx, op: OpK::Unsub { reg } });
                let res = w.do_unsub(reg);
                w.log(K::Ret { thr, idx, res });
            }
        }
        if let Some((target, map)) = &cfg.forward {
            if let Some(&b) = map.get(&action.id) {
                let thr = XCALL_THR + self.sub;
                let idx = w.sub_calls[self.sub].fetch_add(1, std::sync::atomic::Ordering::Relaxed);
                w.log(K::Inv { thr, idx, op: OpK::Dispatch { store: *target, act: b, via: Via::Disp } });
                let res = match w.store(*target) {
                    Some(t) => {
                        if Dispatcher::dispatch(&t, Act { id: b }).is_ok() {
                            Res::Ok
                        } else {
                            Res::Err
                        }
                    }
                    None => Res::Skipped,
                };
                w.log(K::Ret { thr, idx, res });
            }
        }
        w.log(K::NotE { sub: self.sub, act: action.id });
    }
    fn on_unsubscribe(&self) {
        if let Some(w) = self.w.upgrade() {
            w.enter_callback();
            w.log(K::Unsub { sub: self.sub });
        }
    }
}

struct SelSel;
impl Selector<St, u8> for SelSel {
    fn select(&self, state: &St) -> u8 {
        state.sel
    }
}

impl World {
    pub fn new(prog: Program, hist: Arc<Hist>) -> Arc<World> {
        let act_store = act_store_map(&prog);
        Arc::new(World {
            stores: prog.stores.iter().map(|_| StdMutex::new(None)).collect(),
            droppables: prog.stores.iter().map(|_| StdMutex::new(None)).collect(),
            gates: (0..prog.gates).map(|_| Gate::new()).collect(),
            handles: (0..prog.regs).map(|_| StdMutex::new(None)).collect(),
            iters: (0..prog.iters).map(|_| StdMutex::new(None)).collect(),
            sub_objs: prog.subs.iter().map(|_| StdMutex::new(None)).collect(),
            joins: prog.threads.iter().map(|_| StdMutex::new(None)).collect(),
            act_store,
            mw_calls: std::sync::atomic::AtomicUsize::new(0),
            shut_invoked: prog.stores.iter().map(|_| std::sync::atomic::AtomicBool::new(false)).collect(),
            sub_calls: prog.subs.iter().map(|_| std::sync::atomic::AtomicUsize::new(0)).collect(),
            hist,
            prog,
        })
    }

    /// entry of a scripted user callback: user code takes time, so the scheduler may run somebody
    /// else between the library's last synchronisation operation and the callback's first effect
    pub fn enter_callback(&self) {
        simrt::point(simrt::Op::User);
    }

    pub fn log(&self, k: K) {
        self.hist.push(simrt::current_tid(), simrt::now_ns(), k);
    }

    fn store(&self, s: usize) -> Option<StoreArc> {
        self.stores.get(s)?.lock().unwrap().clone()
    }

    fn build(self: &Arc<World>, s: usize) -> bool {
        let cfg = &self.prog.stores[s];
        let red = |tag: u32| -> Box<dyn Reducer<St, Act> + Send + Sync> {
            Box::new(ScriptedReducer { w: Arc::downgrade(self), store: s, tag })
        };
        let mw = |tag: u32| -> Arc<dyn Middleware<St, Act> + Send + Sync> {
            Arc::new(ScriptedMiddleware { w: Arc::downgrade(self), store: s, tag })
        };
        let built: Result<StoreArc, StoreError> = match cfg.ctor {
            1 => {
                // StoreImpl::new_with_reducer: default name/capacity/policy
                let m = builder_model(&cfg.builder);
                Ok(StoreImpl::new_with_reducer(St::default(), red(m.reducers[0])))
            }
            2 => {
                let m = builder_model(&cfg.builder);
                StoreImpl::new_with_name(St::default(), red(m.reducers[0]), m.name.clone())
            }
            _ => {
                let mut b = StoreBuilder::new(St::default());
                for c in &cfg.builder {
                    b = match c {
                        BCall::WithName(n) => b.with_name(n.clone()),
                        BCall::WithReducer(t) => b.with_reducer(red(*t)),
                        BCall::WithReducers(v) => b.with_reducers(v.iter().map(|t| red(*t)).collect()),
                        BCall::AddReducer(t) => b.add_reducer(red(*t)),
                        BCall::WithoutReducer => b.without_reducer(),
                        BCall::WithCapacity(c) => b.with_capacity(*c),
                        BCall::WithPolicy(p) => b.with_policy(to_policy(*p)),
                        BCall::WithMiddleware(t) => b.with_middleware(mw(*t)),
                        BCall::WithMiddlewares(v) => b.with_middlewares(v.iter().map(|t| mw(*t)).collect()),
                        BCall::AddMiddleware(t) => b.add_middleware(mw(*t)),
                    };
                }
                b.build()
            }
        };
        match built {
            Ok(arc) => {
                if cfg.droppable {
                    *self.droppables[s].lock().unwrap() = Some(DroppableStore::new(arc.clone()));
                }
                *self.stores[s].lock().unwrap() = Some(arc);
                true
            }
            Err(_) => false,
        }
    }

    fn sub_obj(self: &Arc<World>, sub: usize) -> SubObj {
        let mut slot = self.sub_objs[sub].lock().unwrap();
        if let Some(o) = slot.as_ref() {
            return o.clone();
        }
        let o: SubObj = match self.prog.subs[sub].kind {
            SubKind::Selector => {
                let wk = Arc::downgrade(self);
                Arc::new(SelectorSubscriber::new(SelSel, move |val: u8, act: Act| {
                    if let Some(w) = wk.upgrade() {
                        w.enter_callback();
                        w.log(K::SelCb { sub, val, act: act.id });
                    }
                }))
            }
            SubKind::Direct if self.prog.subs[sub].shared => {
                // the library's own closure subscriber (it has no on_unsubscribe of its own)
                let wk = Arc::downgrade(self);
                Arc::new(FnSubscriber::from(move |state: &St, action: &Act| {
                    if let Some(w) = wk.upgrade() {
                        w.enter_callback();
                        w.log(K::NotB { sub, act: action.id, n: state.n, h: state.h, sel: state.sel });
                        w.log(K::NotE { sub, act: action.id });
                    }
                }))
            }
            _ => Arc::new(ScriptedSub { w: Arc::downgrade(self), sub }),
        };
        *slot = Some(o.clone());
        o
    }

    pub fn run_thread(self: &Arc<World>, thr: usize) {
        let ops = self.prog.threads[thr].clone();
        for (idx, op) in ops.iter().enumerate() {
            self.exec(thr, idx, op);
        }
    }

    fn exec(self: &Arc<World>, thr: usize, idx: usize, op: &Op) {
        let opk = match op {
            Op::Dispatch { store, act, via } => OpK::Dispatch { store: *store, act: *act, via: *via },
            Op::Thunk { store, eff } => OpK::Thunk { store: *store, eff: eff.id },
            Op::Task { store, eff } => OpK::Task { store: *store, eff: eff.id },
            Op::GetState { store } => OpK::GetState { store: *store },
            Op::GetMetrics { store } => OpK::GetMetrics { store: *store },
            Op::AddSub { store, sub, reg } => OpK::AddSub { store: *store, sub: *sub, reg: *reg },
            Op::Unsub { reg } => OpK::Unsub { reg: *reg },
            Op::Iter { store, it } => OpK::Iter { store: *store, it: *it },
            Op::Next { it, .. } => OpK::Next { it: *it },
            Op::Drain { it } => OpK::Drain { it: *it },
            Op::NextUntilShut { it, .. } => OpK::Next { it: *it },
            Op::DropIter { it } => OpK::DropIter { it: *it },
            Op::AddReducer { store, tag } => OpK::AddReducer { store: *store, tag: *tag },
            Op::AddMiddleware { store, tag } => OpK::AddMiddleware { store: *store, tag: *tag },
            Op::Close { store } => OpK::Close { store: *store },
            Op::Stop { store } => OpK::Stop { store: *store },
            Op::DropStore { store } => OpK::DropStore { store: *store },
            Op::Start { thread } => OpK::Start { thread: *thread },
            Op::Join { thread } => OpK::Join { thread: *thread },
            Op::Settle => OpK::Settle,
            Op::Snap { .. } => OpK::Snap,
            Op::Open { gate, .. } => OpK::Open { gate: *gate },
            Op::Sleep { .. } => OpK::Sleep,
            Op::Build { store } => OpK::Build { store: *store },
        };
        self.log(K::Inv { thr, idx, op: opk });
        if let Op::Close { store } | Op::Stop { store } | Op::DropStore { store } = op {
            self.shut_invoked[*store].store(true, std::sync::atomic::Ordering::SeqCst);
        }
        let res = self.exec_inner(op);
        self.log(K::Ret { thr, idx, res });
    }

    fn do_unsub(&self, reg: usize) -> Res {
        let h = self.handles[reg].lock().unwrap().take();
        match h {
            Some(h) => {
                h.unsubscribe();
                *self.handles[reg].lock().unwrap() = Some(h);
                Res::Unit
            }
            None => Res::Skipped,
        }
    }

    fn exec_inner(self: &Arc<World>, op: &Op) -> Res {
        match op {
            Op::Build { store } => Res::Built(self.build(*store)),
            Op::Dispatch { store, act, via } => {
                let Some(s) = self.store(*store) else { return Res::Skipped };
                let a = Act { id: *act };
                let r = match via {
                    // NB: `s.dispatch(a)` on the Arc would resolve to Dispatcher::dispatch
                    Via::Impl | Via::Thunk => StoreImpl::dispatch(&*s, a),
                    Via::Trait => {
                        let d: &dyn Store<St, Act> = &*s;
                        d.dispatch(a)
                    }
                    Via::Disp => Dispatcher::dispatch(&s, a),
                };
                if r.is_ok() {
                    Res::Ok
                } else {
                    Res::Err
                }
            }
            Op::Thunk { store, eff } => {
                let Some(s) = self.store(*store) else { return Res::Skipped };
                s.dispatch_thunk(make_thunk(Arc::downgrade(self), *store, eff.clone()));
                Res::Unit
            }
            Op::Task { store, eff } => {
                let Some(s) = self.store(*store) else { return Res::Skipped };
                let wk = Arc::downgrade(self);
                let (st, e) = (*store, eff.clone());
                s.dispatch_task(Box::new(move || {
                    if let Some(w) = wk.upgrade() {
                        effect_body(&w, st, &e, None);
                    }
                }));
                Res::Unit
            }
            Op::GetState { store } => {
                let Some(s) = self.store(*store) else { return Res::Skipped };
                let v = s.get_state();
                Res::State { n: v.n, h: v.h, sel: v.sel }
            }
            Op::GetMetrics { store } => {
                let Some(s) = self.store(*store) else { return Res::Skipped };
                let m = s.get_metrics();
                Res::Metrics(MetricsLite {
                    received: m.action_received,
                    dropped: m.action_dropped,
                    reduced: m.action_reduced,
                    effect_issued: m.effect_issued,
                    mw_executed: m.middleware_executed,
                    state_notified: m.state_notified,
                    sub_notified: m.subscriber_notified,
                    errors: m.error_occurred,
                })
            }
            Op::AddSub { store, sub, reg } => {
                let Some(s) = self.store(*store) else { return Res::Skipped };
                let cfg = self.prog.subs[*sub].clone();
                let h: Result<Box<dyn Subscription>, ()> = match cfg.kind {
                    SubKind::Direct => Ok(if reg % 2 == 0 {
                        s.add_subscriber(self.sub_obj(*sub))
                    } else {
                        let d: &dyn Store<St, Act> = &*s;
                        d.add_subscriber(self.sub_obj(*sub))
                    }),
                    SubKind::Selector => {
                        if cfg.shared {
                            // shared selector object (may be registered on several stores)
                            Ok(s.add_subscriber(self.sub_obj(*sub)))
                        } else {
                            let wk = Arc::downgrade(self);
                            let sub = *sub;
                            Ok(s.subscribe_with_selector(SelSel, move |val: u8, act: Act| {
                                if let Some(w) = wk.upgrade() {
                                    w.enter_callback();
                                    w.log(K::SelCb { sub, val, act: act.id });
                                }
                            }))
                        }
                    }
                    SubKind::Channeled { cap, policy } => {
                        let b = Box::new(ScriptedSub { w: Arc::downgrade(self), sub: *sub });
                        if cap == 16 && policy == Policy::Block {
                            s.subscribed(b).map_err(|_| ())
                        } else {
                            s.subscribed_with(cap, to_policy(policy), b).map_err(|_| ())
                        }
                    }
                };
                match h {
                    Ok(h) => {
                        *self.handles[*reg].lock().unwrap() = Some(h);
                        Res::Ok
                    }
                    Err(_) => Res::Err,
                }
            }
            Op::Unsub { reg } => self.do_unsub(*reg),
            Op::Iter { store, it } => {
                let Some(s) = self.store(*store) else { return Res::Skipped };
                let i: IterBox = Box::new(s.iter());
                *self.iters[*it].lock().unwrap() = Some(i);
                Res::Unit
            }
            Op::Next { it, n } => {
                let Some(mut i) = self.iters[*it].lock().unwrap().take() else { return Res::Skipped };
                for _ in 0..*n {
                    self.log(K::NextB { it: *it });
                    let r = i.next();
                    let item = r.map(|(s, a)| (s.n, s.h, a.id));
                    let end = item.is_none();
                    self.log(K::NextR { it: *it, item });
                    if end {
                        break;
                    }
                }
                *self.iters[*it].lock().unwrap() = Some(i);
                Res::Unit
            }
            Op::NextUntilShut { it, store } => {
                let Some(mut i) = self.iters[*it].lock().unwrap().take() else { return Res::Skipped };
                while !self.shut_invoked[*store].load(std::sync::atomic::Ordering::SeqCst) {
                    self.log(K::NextB { it: *it });
                    let r = i.next();
                    let item = r.map(|(s, a)| (s.n, s.h, a.id));
                    let end = item.is_none();
                    self.log(K::NextR { it: *it, item });
                    if end {
                        break;
                    }
                }
                *self.iters[*it].lock().unwrap() = Some(i);
                Res::Unit
            }
            Op::Drain { it } => {
                let Some(mut i) = self.iters[*it].lock().unwrap().take() else { return Res::Skipped };
                loop {
                    self.log(K::NextB { it: *it });
                    let r = i.next();
                    let item = r.map(|(s, a)| (s.n, s.h, a.id));
                    let end = item.is_none();
                    self.log(K::NextR { it: *it, item });
                    if end {
                        break;
                    }
                }
                for _ in 0..3 {
                    self.log(K::NextB { it: *it });
                    let r = i.next();
                    self.log(K::NextR { it: *it, item: r.map(|(s, a)| (s.n, s.h, a.id)) });
                }
                *self.iters[*it].lock().unwrap() = Some(i);
                Res::Unit
            }
            Op::DropIter { it } => {
                let i = self.iters[*it].lock().unwrap().take();
                match i {
                    Some(i) => {
                        drop(i);
                        Res::Unit
                    }
                    None => Res::Skipped,
                }
            }
            Op::AddReducer { store, tag } => {
                let Some(s) = self.store(*store) else { return Res::Skipped };
                s.add_reducer(Box::new(ScriptedReducer { w: Arc::downgrade(self), store: *store, tag: *tag }));
                Res::Unit
            }
            Op::AddMiddleware { store, tag } => {
                let Some(s) = self.store(*store) else { return Res::Skipped };
                s.add_middleware(Arc::new(ScriptedMiddleware { w: Arc::downgrade(self), store: *store, tag: *tag }));
                Res::Unit
            }
            Op::Close { store } => {
                let Some(s) = self.store(*store) else { return Res::Skipped };
                s.close();
                Res::Unit
            }
            Op::Stop { store } => {
                let Some(s) = self.store(*store) else { return Res::Skipped };
                // both spellings of stop(): the inherent method and <dyn Store>::stop
                if (self.prog.regs + self.prog.threads.len()) % 2 == 1 {
                    let d: &dyn Store<St, Act> = &*s;
                    d.stop();
                } else {
                    s.stop();
                }
                Res::Unit
            }
            Op::DropStore { store } => {
                let d = self.droppables[*store].lock().unwrap().take();
                match d {
                    Some(d) => {
                        drop(d);
                        Res::Unit
                    }
                    None => Res::Skipped,
                }
            }
            Op::Start { thread } => {
                let w = self.clone();
                let t = *thread;
                let h = simrt::thread::Builder::new()
                    .name(format!("client-{t}"))
                    .spawn(move || w.run_thread(t))
                    .expect("client spawn");
                *self.joins[t].lock().unwrap() = Some(h);
                Res::Unit
            }
            Op::Join { thread } => {
                let h = self.joins[*thread].lock().unwrap().take();
                match h {
                    Some(h) => {
                        let _ = h.join();
                        Res::Unit
                    }
                    None => Res::Skipped,
                }
            }
            Op::Settle => {
                simrt::settle();
                Res::Unit
            }
            Op::Snap { tag } => {
                let b = simrt::blocked_snapshot();
                self.log(K::Snap { tag: *tag, blocked: b.into_iter().map(|x| (x.tid, x.obj.into())).collect() });
                Res::Unit
            }
            Op::Open { gate, n } => {
                self.gates[*gate].open(*n as u64);
                Res::Unit
            }
            Op::Sleep { ms } => {
                simrt::thread::sleep(Duration::from_millis(*ms as u64));
                Res::Unit
            }
        }
    }

    /// release everything the world still holds (called by the scenario's main thread last)
    pub fn teardown(&self) {
        for g in &self.gates {
            g.open(1 << 40);
        }
        for h in &self.handles {
            drop(h.lock().unwrap().take());
        }
        for s in &self.sub_objs {
            drop(s.lock().unwrap().take());
        }
        for d in &self.droppables {
            let x = d.lock().unwrap().take();
            drop(x);
        }
        for s in &self.stores {
            let x = s.lock().unwrap().take();
            drop(x);
        }
        // iterators last: dropping an unread iterator may block (known finding F4); programs
        // that keep one until here drain it first
        for i in &self.iters {
            let x = i.lock().unwrap().take();
            drop(x);
        }
    }
}
