//! Builds the library under test from /repo's CURRENT working tree with its nondeterminism behind
//! the simulator's seams.  Two mechanisms, both applied:
//!  * `--cfg rs_store_verif` selects the guarded import lines committed in /repo (MANIFEST.hooks);
//!  * every source file is copied to OUT_DIR with `std::sync`, `std::thread` and `std::time` paths
//!    rewritten to `simrt::...`, so that code ADDED by a change under test (a new `std::sync::RwLock`,
//!    a `std::thread::sleep` spelled out in full, an un-guarded atomic) is simulated as well.
//! crossbeam, rusty_pool and num_cpus are substituted as dependencies (see ../shims).
use std::fs;
use std::path::{Path, PathBuf};

const SRC: &str = "/repo/src";

fn main() {
    println!("cargo:rustc-cfg=rs_store_verif");
    println!("cargo:rustc-check-cfg=cfg(rs_store_verif)");
    println!("cargo:rustc-check-cfg=cfg(dev)");
    println!("cargo:rerun-if-changed=build.rs");
    println!("cargo:rerun-if-changed={SRC}");
    let out = PathBuf::from(std::env::var("OUT_DIR").unwrap()).join("src");
    let _ = fs::remove_dir_all(&out);
    copy_tree(Path::new(SRC), &out, Path::new(SRC), &out);
}

fn copy_tree(dir: &Path, out_dir: &Path, root: &Path, out_root: &Path) {
    fs::create_dir_all(out_dir).unwrap();
    let mut entries: Vec<_> = fs::read_dir(dir).unwrap().map(|e| e.unwrap().path()).collect();
    entries.sort();
    for p in entries {
        let name = p.file_name().unwrap().to_owned();
        println!("cargo:rerun-if-changed={}", p.display());
        if p.is_dir() {
            copy_tree(&p, &out_dir.join(&name), root, out_root);
        } else if p.extension().map(|e| e == "rs").unwrap_or(false) {
            let text = fs::read_to_string(&p).unwrap();
            let is_root = p == root.join("lib.rs");
            let text = rewrite(&text, &p, root, out_root, is_root);
            fs::write(out_dir.join(&name), text).unwrap();
        }
    }
}

/// directory in which the out-of-line child modules of the module in file `p` live
fn child_dir(p: &Path) -> PathBuf {
    let stem = p.file_stem().unwrap().to_str().unwrap();
    let dir = p.parent().unwrap();
    if stem == "lib" || stem == "mod" || stem == "main" {
        dir.to_path_buf()
    } else {
        dir.join(stem)
    }
}

fn rewrite(text: &str, p: &Path, root: &Path, out_root: &Path, is_root: bool) -> String {
    let text = split_std_groups(text);
    let mut out = String::with_capacity(text.len() + 256);
    let mut prev_had_path_attr = false;
    for line in text.lines() {
        let t = line.trim_start();
        // the crate root is include!d: inner attributes and inner doc comments cannot stay
        if is_root && (t.starts_with("//!") || t.starts_with("#![")) {
            out.push_str("//");
            out.push_str(line);
            out.push('\n');
            continue;
        }
        // out-of-line module declarations get an absolute #[path] (an include!d or #[path]ed file
        // does not resolve `mod x;` the way its original location did)
        if let Some(name) = mod_decl(t) {
            if !prev_had_path_attr {
                let cd = child_dir(p);
                let cand = [cd.join(format!("{name}.rs")), cd.join(&name).join("mod.rs")];
                if let Some(src) = cand.iter().find(|c| c.exists()) {
                    let rel = src.strip_prefix(root).unwrap();
                    out.push_str(&format!("#[path = \"{}\"]\n", out_root.join(rel).display()));
                }
            }
        }
        prev_had_path_attr = t.starts_with("#[path");
        out.push_str(&seams(line));
        out.push('\n');
    }
    out
}

/// `pub(crate) mod name;` -> Some("name")
fn mod_decl(t: &str) -> Option<String> {
    if !t.ends_with(';') {
        return None;
    }
    let mut rest = t;
    if let Some(r) = rest.strip_prefix("pub") {
        rest = r.trim_start();
        if rest.starts_with('(') {
            rest = rest[rest.find(')')? + 1..].trim_start();
        }
    }
    let rest = rest.strip_prefix("mod ")?;
    let name = rest.trim_end_matches(';').trim();
    if !name.is_empty() && name.chars().all(|c| c.is_alphanumeric() || c == '_') {
        Some(name.to_string())
    } else {
        None
    }
}

/// `std::sync`, `std::thread`, `std::time` as path prefixes -> `simrt::...`
fn seams(line: &str) -> String {
    let b = line.as_bytes();
    let is_id = |c: u8| c.is_ascii_alphanumeric() || c == b'_';
    let mut out = String::with_capacity(line.len() + 8);
    let mut i = 0;
    while i < b.len() {
        if line[i..].starts_with("std::") && (i == 0 || !is_id(b[i - 1])) {
            let rest = &line[i + 5..];
            let hit = ["sync", "thread", "time"].iter().find(|m| rest.starts_with(**m) && rest.as_bytes().get(m.len()).map(|c| !is_id(*c)).unwrap_or(true));
            if hit.is_some() {
                out.push_str("simrt::");
                i += 5;
                continue;
            }
        }
        // push one whole UTF-8 character
        let ch = line[i..].chars().next().unwrap();
        out.push(ch);
        i += ch.len_utf8();
    }
    out
}

/// `use std::{sync::{Arc, Mutex}, thread, fmt};` -> `use {std::sync::{Arc, Mutex}, std::thread, std::fmt};`
/// (still one statement, so an attribute in front of it keeps governing all of it)
fn split_std_groups(text: &str) -> String {
    let mut out = String::with_capacity(text.len());
    let mut rest = text;
    loop {
        let Some(pos) = find_use_std_group(rest) else {
            out.push_str(rest);
            return out;
        };
        let (before, from) = rest.split_at(pos);
        out.push_str(before);
        let open = from.find('{').unwrap();
        let mut depth = 0usize;
        let mut end = None;
        for (i, c) in from[open..].char_indices() {
            match c {
                '{' => depth += 1,
                '}' => {
                    depth -= 1;
                    if depth == 0 {
                        end = Some(open + i);
                        break;
                    }
                }
                _ => {}
            }
        }
        let Some(close) = end else {
            out.push_str(from);
            return out;
        };
        let body = &from[open + 1..close];
        let mut items = vec![];
        let mut depth = 0usize;
        let mut cur = String::new();
        for c in body.chars() {
            match c {
                '{' => {
                    depth += 1;
                    cur.push(c)
                }
                '}' => {
                    depth -= 1;
                    cur.push(c)
                }
                ',' if depth == 0 => {
                    items.push(cur.trim().to_string());
                    cur.clear();
                }
                _ => cur.push(c),
            }
        }
        if !cur.trim().is_empty() {
            items.push(cur.trim().to_string());
        }
        let items: Vec<String> = items
            .iter()
            .map(|it| {
                let it: String = it.split_whitespace().collect::<Vec<_>>().join(" ");
                if it == "self" {
                    "std".to_string()
                } else {
                    format!("std::{it}")
                }
            })
            .collect();
        // keep the line count: the group's newlines are re-inserted after the statement
        let newlines = from[..close].matches('\n').count();
        out.push_str("use {");
        out.push_str(&items.join(", "));
        out.push('}');
        rest = &from[close + 1..];
        if let Some(semi) = rest.find(';') {
            out.push_str(&rest[..semi + 1]);
            rest = &rest[semi + 1..];
        }
        for _ in 0..newlines {
            out.push('\n');
        }
    }
}

fn find_use_std_group(s: &str) -> Option<usize> {
    let mut from = 0;
    while let Some(i) = s[from..].find("use std::{") {
        let at = from + i;
        let ok = at == 0 || s[..at].ends_with(|c: char| c.is_whitespace() || c == ';' || c == '}' || c == ')');
        if ok {
            return Some(at);
        }
        from = at + 1;
    }
    None
}
