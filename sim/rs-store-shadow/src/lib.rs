// The library under test: /repo/src as rewritten by build.rs (see there).
include!(concat!(env!("OUT_DIR"), "/src/lib.rs"));
