pub use simrt::channel::*;
