pub mod channel { pub use simrt::channel::*; }
