//! Stand-in for the parts of `crossbeam` a (changed) rs-store tree may use, on top of the simulator.
pub mod channel {
    pub use simrt::channel::*;
    pub use crate::select;
}

/// Non-blocking queues: a simulated mutex around a VecDeque (every operation is a scheduling point).
pub mod queue {
    use simrt::sync::Mutex;
    use std::collections::VecDeque;

    pub struct ArrayQueue<T> {
        q: Mutex<VecDeque<T>>,
        cap: usize,
    }

    impl<T> ArrayQueue<T> {
        pub fn new(cap: usize) -> ArrayQueue<T> {
            assert!(cap > 0, "capacity must be non-zero");
            ArrayQueue { q: Mutex::new(VecDeque::with_capacity(cap)), cap }
        }
        pub fn push(&self, value: T) -> Result<(), T> {
            let mut q = self.q.lock().unwrap();
            if q.len() >= self.cap {
                return Err(value);
            }
            q.push_back(value);
            Ok(())
        }
        pub fn force_push(&self, value: T) -> Option<T> {
            let mut q = self.q.lock().unwrap();
            let old = if q.len() >= self.cap { q.pop_front() } else { None };
            q.push_back(value);
            old
        }
        pub fn pop(&self) -> Option<T> {
            self.q.lock().unwrap().pop_front()
        }
        pub fn capacity(&self) -> usize {
            self.cap
        }
        pub fn is_empty(&self) -> bool {
            self.q.lock().unwrap().is_empty()
        }
        pub fn is_full(&self) -> bool {
            self.q.lock().unwrap().len() >= self.cap
        }
        pub fn len(&self) -> usize {
            self.q.lock().unwrap().len()
        }
    }

    pub struct SegQueue<T> {
        q: Mutex<VecDeque<T>>,
    }

    impl<T> SegQueue<T> {
        pub fn new() -> SegQueue<T> {
            SegQueue { q: Mutex::new(VecDeque::new()) }
        }
        pub fn push(&self, value: T) {
            self.q.lock().unwrap().push_back(value);
        }
        pub fn pop(&self) -> Option<T> {
            self.q.lock().unwrap().pop_front()
        }
        pub fn is_empty(&self) -> bool {
            self.q.lock().unwrap().is_empty()
        }
        pub fn len(&self) -> usize {
            self.q.lock().unwrap().len()
        }
    }

    impl<T> Default for SegQueue<T> {
        fn default() -> Self {
            SegQueue::new()
        }
    }
}

pub mod utils {
    use std::ops::{Deref, DerefMut};

    #[derive(Clone, Copy, Default, Hash, PartialEq, Eq, Debug)]
    pub struct CachePadded<T>(T);

    impl<T> CachePadded<T> {
        pub const fn new(t: T) -> CachePadded<T> {
            CachePadded(t)
        }
        pub fn into_inner(self) -> T {
            self.0
        }
    }
    impl<T> Deref for CachePadded<T> {
        type Target = T;
        fn deref(&self) -> &T {
            &self.0
        }
    }
    impl<T> DerefMut for CachePadded<T> {
        fn deref_mut(&mut self) -> &mut T {
            &mut self.0
        }
    }
    impl<T> From<T> for CachePadded<T> {
        fn from(t: T) -> Self {
            CachePadded(t)
        }
    }

    /// spin/snooze become scheduling points
    #[derive(Default, Debug)]
    pub struct Backoff {
        step: std::cell::Cell<u32>,
    }

    impl Backoff {
        pub fn new() -> Backoff {
            Backoff::default()
        }
        pub fn reset(&self) {
            self.step.set(0)
        }
        pub fn spin(&self) {
            self.step.set(self.step.get().saturating_add(1));
            simrt::thread::yield_now();
        }
        pub fn snooze(&self) {
            self.step.set(self.step.get().saturating_add(1));
            simrt::thread::yield_now();
        }
        pub fn is_completed(&self) -> bool {
            self.step.get() > 10
        }
    }
}

pub mod sync {
    use simrt::sync::{Arc, Condvar, Mutex};

    /// crossbeam::sync::WaitGroup
    pub struct WaitGroup {
        inner: Arc<(Mutex<usize>, Condvar)>,
    }

    impl WaitGroup {
        pub fn new() -> WaitGroup {
            WaitGroup { inner: Arc::new((Mutex::new(1), Condvar::new())) }
        }
        pub fn wait(self) {
            let inner = self.inner.clone();
            drop(self);
            let mut n = inner.0.lock().unwrap();
            while *n > 0 {
                n = inner.1.wait(n).unwrap();
            }
        }
    }

    impl Default for WaitGroup {
        fn default() -> Self {
            WaitGroup::new()
        }
    }

    impl Clone for WaitGroup {
        fn clone(&self) -> WaitGroup {
            *self.inner.0.lock().unwrap() += 1;
            WaitGroup { inner: self.inner.clone() }
        }
    }

    impl Drop for WaitGroup {
        fn drop(&mut self) {
            let mut n = self.inner.0.lock().unwrap();
            *n -= 1;
            if *n == 0 {
                self.inner.1.notify_all();
            }
        }
    }
}

/// A subset of crossbeam's `select!`: any number of `recv(r) -> pat => body` and
/// `send(s, msg) -> pat => body` arms, optionally followed by `default => body` or
/// `default(timeout) => body`. Bodies are expressions followed by a comma, or blocks.
#[macro_export]
macro_rules! select {
    ($($tokens:tt)*) => {
        $crate::__sim_select!(@parse [] $($tokens)*)
    };
}

#[doc(hidden)]
#[macro_export]
macro_rules! __sim_select {
    // stray commas between arms
    (@parse [$($arms:tt)*] , $($rest:tt)*) => { $crate::__sim_select!(@parse [$($arms)*] $($rest)*) };
    // recv arms
    (@parse [$($arms:tt)*] recv($r:expr) -> $p:pat => $body:block $($rest:tt)*) => {
        $crate::__sim_select!(@parse [$($arms)* {recv ($r) ($p) ($body)}] $($rest)*)
    };
    (@parse [$($arms:tt)*] recv($r:expr) -> $p:pat => $body:expr, $($rest:tt)*) => {
        $crate::__sim_select!(@parse [$($arms)* {recv ($r) ($p) ($body)}] $($rest)*)
    };
    (@parse [$($arms:tt)*] recv($r:expr) -> $p:pat => $body:expr) => {
        $crate::__sim_select!(@parse [$($arms)* {recv ($r) ($p) ($body)}])
    };
    // send arms
    (@parse [$($arms:tt)*] send($s:expr, $m:expr) -> $p:pat => $body:block $($rest:tt)*) => {
        $crate::__sim_select!(@parse [$($arms)* {send ($s) ($m) ($p) ($body)}] $($rest)*)
    };
    (@parse [$($arms:tt)*] send($s:expr, $m:expr) -> $p:pat => $body:expr, $($rest:tt)*) => {
        $crate::__sim_select!(@parse [$($arms)* {send ($s) ($m) ($p) ($body)}] $($rest)*)
    };
    (@parse [$($arms:tt)*] send($s:expr, $m:expr) -> $p:pat => $body:expr) => {
        $crate::__sim_select!(@parse [$($arms)* {send ($s) ($m) ($p) ($body)}])
    };
    // default arms (last)
    (@parse [$($arms:tt)*] default => $body:expr $(,)?) => {
        { let mut __sel = $crate::channel::Select::new(); $crate::__sim_select!(@reg __sel [$($arms)*] [] [try ($body)]) }
    };
    (@parse [$($arms:tt)*] default($t:expr) => $body:expr $(,)?) => {
        { let mut __sel = $crate::channel::Select::new(); $crate::__sim_select!(@reg __sel [$($arms)*] [] [timeout ($t) ($body)]) }
    };
    (@parse [$($arms:tt)*]) => {
        { let mut __sel = $crate::channel::Select::new(); $crate::__sim_select!(@reg __sel [$($arms)*] [] [block]) }
    };
    // register the operations one by one; each level keeps its handle alive for the levels inside
    (@reg $sel:ident [{recv ($r:expr) ($p:pat) ($body:expr)} $($arms:tt)*] [$($acc:tt)*] $def:tt) => {{
        let __h = &$r;
        let __i = $sel.recv(__h);
        $crate::__sim_select!(@reg $sel [$($arms)*] [$($acc)* {recv __i __h ($p) ($body)}] $def)
    }};
    (@reg $sel:ident [{send ($s:expr) ($m:expr) ($p:pat) ($body:expr)} $($arms:tt)*] [$($acc:tt)*] $def:tt) => {{
        let __h = &$s;
        let __i = $sel.send(__h);
        $crate::__sim_select!(@reg $sel [$($arms)*] [$($acc)* {send __i __h ($m) ($p) ($body)}] $def)
    }};
    (@reg $sel:ident [] [$($acc:tt)*] [block]) => {{
        let __op = $sel.select();
        $crate::__sim_select!(@run __op [$($acc)*])
    }};
    (@reg $sel:ident [] [$($acc:tt)*] [try ($dbody:expr)]) => {{
        match $sel.try_select() {
            Ok(__op) => $crate::__sim_select!(@run __op [$($acc)*]),
            Err(_) => $dbody,
        }
    }};
    (@reg $sel:ident [] [$($acc:tt)*] [timeout ($t:expr) ($dbody:expr)]) => {{
        match $sel.select_timeout($t) {
            Ok(__op) => $crate::__sim_select!(@run __op [$($acc)*]),
            Err(_) => $dbody,
        }
    }};
    (@run $op:ident [{recv $i:ident $h:ident ($p:pat) ($body:expr)} $($acc:tt)*]) => {
        if $op.index() == $i {
            let $p = $op.recv($h);
            $body
        } else {
            $crate::__sim_select!(@run $op [$($acc)*])
        }
    };
    (@run $op:ident [{send $i:ident $h:ident ($m:expr) ($p:pat) ($body:expr)} $($acc:tt)*]) => {
        if $op.index() == $i {
            let $p = $op.send($h, $m);
            $body
        } else {
            $crate::__sim_select!(@run $op [$($acc)*])
        }
    };
    (@run $op:ident []) => {
        unreachable!("select!: no operation matched the selected index")
    };
}
