pub fn get() -> usize { simrt::knob_cpus() }
