#[cfg(feature = "async")]
use futures::{
    future::BoxFuture,
    task::{waker_ref, ArcWake},
};
use futures_channel::oneshot;
use futures_executor::block_on;
use std::future::Future;
use std::option::Option;
use simrt::sync::{
    atomic::{AtomicUsize, Ordering},
    Arc, Condvar, Mutex,
};
#[cfg(feature = "async")]
use std::task::Context;
use simrt::thread;
use std::time::Duration;

const BITS: usize = std::mem::size_of::<usize>() * 8;
/// The absolute maximum number of workers. This corresponds to the maximum value that can be stored within half the bits of usize,
/// as two counters (total workers and idle workers) are stored in one AtomicUsize.
pub const MAX_SIZE: usize = (1 << (BITS / 2)) - 1;

type Job = Box<dyn FnOnce() + Send + 'static>;

/// Trait to implement for all items that may be executed by the `ThreadPool`.
pub trait Task<R: Send>: Send {
    /// Execute this task and return its result.
    fn run(self) -> R;

    /// Transform this `Task` into a heap allocated `FnOnce` if possible.
    ///
    /// Used by [`ThreadPool::execute`](struct.ThreadPool.html#method.execute) to turn this `Task` into a `Job`
    /// directly without having to create an additional `Job` that calls this `Task`.
    fn into_fn(self) -> Option<Box<dyn FnOnce() -> R + Send + 'static>>;

    /// Return `true` if calling [`Task::into_fn`] on this `Task` returns `Some`.
    fn is_fn(&self) -> bool;
}

/// Implement the `Task` trait for any FnOnce closure that returns a thread-safe result.
impl<R, F> Task<R> for F
where
    R: Send,
    F: FnOnce() -> R + Send + 'static,
{
    fn run(self) -> R {
        self()
    }

    fn into_fn(self) -> Option<Box<dyn FnOnce() -> R + Send + 'static>> {
        Some(Box::new(self))
    }

    fn is_fn(&self) -> bool {
        true
    }
}

/// Handle returned by [`ThreadPool::evaluate`](struct.ThreadPool.html#method.evaluate) and [`ThreadPool::complete`](struct.ThreadPool.html#method.complete)
/// that allows to block the current thread and wait for the result of a submitted task. The returned `JoinHandle` may also be sent to the [`ThreadPool`](struct.ThreadPool.html)
/// to create a task that blocks a worker thread until the task is completed and then does something with the result. This handle communicates with the worker thread
/// using a oneshot channel blocking the thread when [`try_await_complete()`](struct.JoinHandle.html#method.try_await_complete) is called until a message, i.e. the result of the
/// task, is received.
pub struct JoinHandle<T: Send> {
    pub receiver: oneshot::Receiver<T>,
}

impl<T: Send> JoinHandle<T> {
    /// Block the current thread until the result of the task is received.
    ///
    /// # Errors
    ///
    /// This function might return a `oneshot::Canceled` if the channel was broken
    /// before the result was received. This is generally the case if execution of
    /// the task panicked.
    pub fn try_await_complete(self) -> Result<T, oneshot::Canceled> {
        block_on(self.receiver)
    }

    /// Block the current thread until the result of the task is received.
    ///
    /// # Panics
    ///
    /// This function might panic if [`try_await_complete()`](struct.JoinHandle.html#method.try_await_complete) returns `oneshot::Canceled`.
    /// This is generally the case if execution of the task panicked and the sender was dropped before sending a result to the receiver.
    pub fn await_complete(self) -> T {
        self.try_await_complete()
            .expect("could not receive message because channel was cancelled")
    }
}

#[cfg(feature = "async")]
struct AsyncTask {
    future: Mutex<Option<BoxFuture<'static, ()>>>,
    pool: ThreadPool,
}

/// Implement `ArcWake` for `AsyncTask` by re-submitting the `AsyncTask` i.e. the `Future` to the pool.
#[cfg(feature = "async")]
impl ArcWake for AsyncTask {
    fn wake_by_ref(arc_self: &Arc<Self>) {
        let cloned_task = arc_self.clone();
        arc_self
            .pool
            .try_execute(cloned_task)
            .expect("failed to wake future because message could not be sent to pool");
    }
}

/// Implement the `Task` trait for `AsyncTask` in order to make it executable for the pool by
/// creating a waker and polling the future.
#[cfg(feature = "async")]
impl Task<()> for Arc<AsyncTask> {
    fn run(self) {
        let mut future_slot = self.future.lock().expect("failed to acquire mutex");
        if let Some(mut future) = future_slot.take() {
            let waker = waker_ref(&self);
            let context = &mut Context::from_waker(&*waker);
            if future.as_mut().poll(context).is_pending() {
                *future_slot = Some(future);
            }
        }
    }

    fn into_fn(self) -> Option<Box<dyn FnOnce() + Send + 'static>> {
        None
    }

    fn is_fn(&self) -> bool {
        false
    }
}

// assert that Send is implemented
trait ThreadSafe: Send {}

impl<R: Send> ThreadSafe for dyn Task<R> {}

impl<R: Send> ThreadSafe for JoinHandle<R> {}

impl ThreadSafe for ThreadPool {}

/// Self growing / shrinking `ThreadPool` implementation based on crossbeam's
/// multi-producer multi-consumer channels that enables awaiting the result of a
/// task and offers async support.
///
/// This `ThreadPool` has two different pool sizes; a core pool size filled with
/// threads that live for as long as the channel and a max pool size which describes
/// the maximum amount of worker threads that may live at the same time.
/// Those additional non-core threads have a specific keep_alive time described when
/// creating the `ThreadPool` that defines how long such threads may be idle for
/// without receiving any work before giving up and terminating their work loop.
///
/// This `ThreadPool` does not spawn any threads until a task is submitted to it.
/// Then it will create a new thread for each task until the core pool size is full.
/// After that a new thread will only be created upon an `execute()` call if the
/// current pool is lower than the max pool size and there are no idle threads.
///
/// Functions like `evaluate()` and `complete()` return a `JoinHandle` that may be used
/// to await the result of a submitted task or future. JoinHandles may be sent to the
/// thread pool to create a task that blocks a worker thread until it receives the
/// result of the other task and then operates on the result. If the task panics the
/// `JoinHandle` receives a cancellation error. This is implemented using a futures
/// oneshot channel to communicate with the worker thread.
///
/// This `ThreadPool` may be used as a futures executor if the "async" feature is enabled,
/// which is the case by default. The "async" feature includes the `spawn()` and
/// `try_spawn()` functions which create a task that polls the future one by one and
/// creates a waker that re-submits the future to the pool when it can make progress.
/// Without the "async" feature, futures can simply be executed to completion using
/// the `complete` function, which simply blocks a worker thread until the future has
/// been polled to completion.
///
/// The "async" feature can be disabled if not need by adding the following to your
/// Cargo dependency:
/// ```toml
/// [dependencies.rusty_pool]
/// default-features = false
/// version = "*"
/// ```
///
/// When creating a new worker this `ThreadPool` tries to increment the worker count
/// using a compare-and-swap mechanism, if the increment fails because the total worker
/// count has been incremented to the specified limit (the core_size when trying to
/// create a core thread, else the max_size) by another thread, the pool tries to create
/// a non-core worker instead (if previously trying to create a core worker and no idle
/// worker exists) or sends the task to the channel instead. Panicking workers are always
/// cloned and replaced.
///
/// Locks are only used for the join functions to lock the `Condvar`, apart from that
/// this `ThreadPool` implementation fully relies on crossbeam and atomic operations.
/// This `ThreadPool` decides whether it is currently idle (and should fast-return
/// join attempts) by comparing the total worker count to the idle worker count, which
/// are two values stored in one `AtomicUsize` (both half the size of usize) making sure
/// that if both are updated they may be updated in a single atomic operation.
///
/// The thread pool and its crossbeam channel can be destroyed by using the shutdown
/// function, however that does not stop tasks that are already running but will
/// terminate the thread the next time it will try to fetch work from the channel.
/// The channel is only destroyed once all clones of the `ThreadPool` have been
/// shut down / dropped.
///
/// # Usage
/// Create a new `ThreadPool`:
/// ```rust
/// use rusty_pool::Builder;
/// use rusty_pool::ThreadPool;
/// // Create default `ThreadPool` configuration with the number of CPUs as core pool size
/// let pool = ThreadPool::default();
/// // Create a `ThreadPool` with default naming:
/// use std::time::Duration;
/// let pool2 = ThreadPool::new(5, 50, Duration::from_secs(60));
/// // Create a `ThreadPool` with a custom name:
/// let pool3 = ThreadPool::new_named(String::from("my_pool"), 5, 50, Duration::from_secs(60));
/// // using the Builder struct:
/// let pool4 = Builder::new().core_size(5).max_size(50).build();
/// ```
///
/// Submit a closure for execution in the `ThreadPool`:
/// ```rust
/// use rusty_pool::ThreadPool;
/// use std::thread;
/// use std::time::Duration;
/// let pool = ThreadPool::default();
/// pool.execute(|| {
///     thread::sleep(Duration::from_secs(5));
///     print!("hello");
/// });
/// ```
///
/// Submit a task and await the result:
/// ```rust
/// use rusty_pool::ThreadPool;
/// use std::thread;
/// use std::time::Duration;
/// let pool = ThreadPool::default();
/// let handle = pool.evaluate(|| {
///     thread::sleep(Duration::from_secs(5));
///     return 4;
/// });
/// let result = handle.await_complete();
/// assert_eq!(result, 4);
/// ```
///
/// Spawn futures using the `ThreadPool`:
/// ```rust
/// async fn some_async_fn(x: i32, y: i32) -> i32 {
///     x + y
/// }
///
/// async fn other_async_fn(x: i32, y: i32) -> i32 {
///     x - y
/// }
///
/// use rusty_pool::ThreadPool;
/// let pool = ThreadPool::default();
///
/// // simply complete future by blocking a worker until the future has been completed
/// let handle = pool.complete(async {
///     let a = some_async_fn(4, 6).await; // 10
///     let b = some_async_fn(a, 3).await; // 13
///     let c = other_async_fn(b, a).await; // 3
///     some_async_fn(c, 5).await // 8
/// });
/// assert_eq!(handle.await_complete(), 8);
///
/// use std::sync::{Arc, atomic::{AtomicI32, Ordering}};
///
/// // spawn future and create waker that automatically re-submits itself to the threadpool if ready to make progress, this requires the "async" feature which is enabled by default
/// let count = Arc::new(AtomicI32::new(0));
/// let clone = count.clone();
/// pool.spawn(async move {
///     let a = some_async_fn(3, 6).await; // 9
///     let b = other_async_fn(a, 4).await; // 5
///     let c = some_async_fn(b, 7).await; // 12
///     clone.fetch_add(c, Ordering::Relaxed);
/// });
/// pool.join();
/// assert_eq!(count.load(Ordering::Relaxed), 12);
/// ```
///
/// Join and shut down the `ThreadPool`:
/// ```rust
/// use std::thread;
/// use std::time::Duration;
/// use rusty_pool::ThreadPool;
/// use std::sync::{Arc, atomic::{AtomicI32, Ordering}};
///
/// let pool = ThreadPool::default();
/// for _ in 0..10 {
///     pool.execute(|| { thread::sleep(Duration::from_secs(10)) })
/// }
/// // wait for all threads to become idle, i.e. all tasks to be completed including tasks added by other threads after join() is called by this thread or for the timeout to be reached
/// pool.join_timeout(Duration::from_secs(5));
///
/// let count = Arc::new(AtomicI32::new(0));
/// for _ in 0..15 {
///     let clone = count.clone();
///     pool.execute(move || {
///         thread::sleep(Duration::from_secs(5));
///         clone.fetch_add(1, Ordering::Relaxed);
///     });
/// }
///
/// // shut down and drop the only instance of this `ThreadPool` (no clones) causing the channel to be broken leading all workers to exit after completing their current work
/// // and wait for all workers to become idle, i.e. finish their work.
/// pool.shutdown_join();
/// assert_eq!(count.load(Ordering::Relaxed), 15);
/// ```
#[derive(Clone)]
pub struct ThreadPool {
    core_size: usize,
    max_size: usize,
    keep_alive: Duration,
    channel_data: Arc<ChannelData>,
    worker_data: Arc<WorkerData>,
}

impl ThreadPool {
    /// Construct a new `ThreadPool` with the specified core pool size, max pool size
    /// and keep_alive time for non-core threads. This function does not spawn any
    /// threads. This `ThreadPool` will receive a default name in the following format:
    /// "rusty_pool_" + pool number.
    ///
    /// `core_size` specifies the amount of threads to keep alive for as long as
    /// the `ThreadPool` exists and its channel remains connected.
    ///
    /// `max_size` specifies the maximum number of worker threads that may exist
    /// at the same time.
    ///
    /// `keep_alive` specifies the duration for which to keep non-core pool
    /// worker threads alive while they do not receive any work.
    ///
    /// # Panics
    ///
    /// This function will panic if max_size is 0, lower than core_size or exceeds half
    /// the size of usize. This restriction exists because two counters (total workers and
    /// idle counters) are stored within one AtomicUsize.
    pub fn new(core_size: usize, max_size: usize, keep_alive: Duration) -> Self {
        static POOL_COUNTER: AtomicUsize = AtomicUsize::new(1);
        let name = format!(
            "rusty_pool_{}",
            POOL_COUNTER.fetch_add(1, Ordering::Relaxed)
        );
        ThreadPool::new_named(name, core_size, max_size, keep_alive)
    }

    /// Construct a new `ThreadPool` with the specified name, core pool size, max pool size
    /// and keep_alive time for non-core threads. This function does not spawn any
    /// threads.
    ///
    /// `name` the name of the `ThreadPool` that will be used as prefix for each
    /// thread.
    ///
    /// `core_size` specifies the amount of threads to keep alive for as long as
    /// the `ThreadPool` exists and its channel remains connected.
    ///
    /// `max_size` specifies the maximum number of worker threads that may exist
    /// at the same time.
    ///
    /// `keep_alive` specifies the duration for which to keep non-core pool
    /// worker threads alive while they do not receive any work.
    ///
    /// # Panics
    ///
    /// This function will panic if max_size is 0, lower than core_size or exceeds half
    /// the size of usize. This restriction exists because two counters (total workers and
    /// idle counters) are stored within one AtomicUsize.
    pub fn new_named(
        name: String,
        core_size: usize,
        max_size: usize,
        keep_alive: Duration,
    ) -> Self {
        let (sender, receiver) = crossbeam_channel::unbounded();

        if max_size == 0 || max_size < core_size {
            panic!("max_size must be greater than 0 and greater or equal to the core pool size");
        } else if max_size > MAX_SIZE {
            panic!(
                "max_size may not exceed {}, the maximum value that can be stored within half the bits of usize ({} -> {} bits in this case)",
                MAX_SIZE,
                BITS,
                BITS / 2
            );
        }

        let worker_data = WorkerData {
            pool_name: name,
            worker_count_data: WorkerCountData::default(),
            worker_number: AtomicUsize::new(1),
            join_notify_condvar: Condvar::new(),
            join_notify_mutex: Mutex::new(()),
            join_generation: AtomicUsize::new(0),
        };

        let channel_data = ChannelData { sender, receiver };

        Self {
            core_size,
            max_size,
            keep_alive,
            channel_data: Arc::new(channel_data),
            worker_data: Arc::new(worker_data),
        }
    }

    /// Get the number of live workers, includes all workers waiting for work or executing tasks.
    ///
    /// This counter is incremented when creating a new worker. The value is increment just before
    /// the worker starts executing its initial task. Incrementing the worker total might fail
    /// if the total has already reached the specified limit (either core_size or max_size) after
    /// being incremented by another thread, as of rusty_pool 0.5.0 failed attempts to create a worker
    /// no longer skews the worker total as failed attempts to increment the worker total does not
    /// increment the value at all.
    /// This counter is decremented when a worker reaches the end of its working loop, which for non-core
    /// threads might happen if it does not receive any work during its keep alive time,
    /// for core threads this only happens once the channel is disconnected.
    pub fn get_current_worker_count(&self) -> usize {
        self.worker_data.worker_count_data.get_total_worker_count()
    }

    /// Get the number of workers currently waiting for work. Those threads are currently
    /// polling from the crossbeam receiver. Core threads wait indefinitely and might remain
    /// in this state until the `ThreadPool` is dropped. The remaining threads give up after
    /// waiting for the specified keep_alive time.
    pub fn get_idle_worker_count(&self) -> usize {
        self.worker_data.worker_count_data.get_idle_worker_count()
    }

    /// Send a new task to the worker threads. This function is responsible for sending the message through the
    /// channel and creating new workers if needed. If the current worker count is lower than the core pool size
    /// this function will always create a new worker. If the current worker count is equal to or greater than
    /// the core pool size this function only creates a new worker if the worker count is below the max pool size
    /// and there are no idle threads.
    ///
    /// When attempting to increment the total worker count before creating a worker fails due to the
    /// counter reaching the provided limit (core_size when attempting to create core thread, else
    /// max_size) after being incremented by another thread, the pool tries to create
    /// a non-core worker instead (if previously trying to create a core worker and no idle
    /// worker exists) or sends the task to the channel instead. If incrementing the counter succeeded,
    /// either because the current value of the counter matched the expected value or because the
    /// last observed value was still below the limit, the worker starts with the provided task as
    /// initial task and spawns its thread.
    ///
    /// # Panics
    ///
    /// This function might panic if `try_execute` returns an error when the crossbeam channel has been
    /// closed unexpectedly.
    /// This should never occur under normal circumstances using safe code, as shutting down the `ThreadPool`
    /// consumes ownership and the crossbeam channel is never dropped unless dropping the `ThreadPool`.
    pub fn execute<T: Task<()> + 'static>(&self, task: T) {
        if self.try_execute(task).is_err() {
            panic!("the channel of the thread pool has been closed");
        }
    }

    /// Send a new task to the worker threads. This function is responsible for sending the message through the
    /// channel and creating new workers if needed. If the current worker count is lower than the core pool size
    /// this function will always create a new worker. If the current worker count is equal to or greater than
    /// the core pool size this function only creates a new worker if the worker count is below the max pool size
    /// and there are no idle threads.
    ///
    /// When attempting to increment the total worker count before creating a worker fails due to the
    /// counter reaching the provided limit (core_size when attempting to create core thread, else
    /// max_size) after being incremented by another thread, the pool tries to create
    /// a non-core worker instead (if previously trying to create a core worker and no idle
    /// worker exists) or sends the task to the channel instead. If incrementing the counter succeeded,
    /// either because the current value of the counter matched the expected value or because the
    /// last observed value was still below the limit, the worker starts with the provided task as
    /// initial task and spawns its thread.
    ///
    /// # Errors
    ///
    /// This function might return `crossbeam_channel::SendError` if the sender was dropped unexpectedly.
    pub fn try_execute<T: Task<()> + 'static>(
        &self,
        task: T,
    ) -> Result<(), crossbeam_channel::SendError<Job>> {
        if task.is_fn() {
            self.try_execute_task(
                task.into_fn()
                    .expect("Task::into_fn returned None despite is_fn returning true"),
            )
        } else {
            self.try_execute_task(Box::new(move || {
                task.run();
            }))
        }
    }

    /// Send a new task to the worker threads and return a [`JoinHandle`](struct.JoinHandle.html) that may be used to await
    /// the result. This function is responsible for sending the message through the channel and creating new
    /// workers if needed. If the current worker count is lower than the core pool size this function will always
    /// create a new worker. If the current worker count is equal to or greater than the core pool size this
    /// function only creates a new worker if the worker count is below the max pool size and there are no idle
    /// threads.
    ///
    /// When attempting to increment the total worker count before creating a worker fails due to the
    /// counter reaching the provided limit (core_size when attempting to create core thread, else
    /// max_size) after being incremented by another thread, the pool tries to create
    /// a non-core worker instead (if previously trying to create a core worker and no idle
    /// worker exists) or sends the task to the channel instead. If incrementing the counter succeeded,
    /// either because the current value of the counter matched the expected value or because the
    /// last observed value was still below the limit, the worker starts with the provided task as
    /// initial task and spawns its thread.
    ///
    /// # Panics
    ///
    /// This function might panic if `try_execute` returns an error when the crossbeam channel has been
    /// closed unexpectedly.
    /// This should never occur under normal circumstances using safe code, as shutting down the `ThreadPool`
    /// consumes ownership and the crossbeam channel is never dropped unless dropping the `ThreadPool`.
    pub fn evaluate<R: Send + 'static, T: Task<R> + 'static>(&self, task: T) -> JoinHandle<R> {
        match self.try_evaluate(task) {
            Ok(handle) => handle,
            Err(e) => panic!("the channel of the thread pool has been closed: {:?}", e),
        }
    }

    /// Send a new task to the worker threads and return a [`JoinHandle`](struct.JoinHandle.html) that may be used to await
    /// the result. This function is responsible for sending the message through the channel and creating new
    /// workers if needed. If the current worker count is lower than the core pool size this function will always
    /// create a new worker. If the current worker count is equal to or greater than the core pool size this
    /// function only creates a new worker if the worker count is below the max pool size and there are no idle
    /// threads.
    ///
    /// When attempting to increment the total worker count before creating a worker fails due to the
    /// counter reaching the provided limit (core_size when attempting to create core thread, else
    /// max_size) after being incremented by another thread, the pool tries to create
    /// a non-core worker instead (if previously trying to create a core worker and no idle
    /// worker exists) or sends the task to the channel instead. If incrementing the counter succeeded,
    /// either because the current value of the counter matched the expected value or because the
    /// last observed value was still below the limit, the worker starts with the provided task as
    /// initial task and spawns its thread.
    ///
    /// # Errors
    ///
    /// This function might return `crossbeam_channel::SendError` if the sender was dropped unexpectedly.
    pub fn try_evaluate<R: Send + 'static, T: Task<R> + 'static>(
        &self,
        task: T,
    ) -> Result<JoinHandle<R>, crossbeam_channel::SendError<Job>> {
        let (sender, receiver) = oneshot::channel::<R>();
        let join_handle = JoinHandle { receiver };
        let job = || {
            let result = task.run();
            // if the receiver was dropped that means the caller was not interested in the result
            let _ignored_result = sender.send(result);
        };

        let execute_attempt = self.try_execute_task(Box::new(job));
        execute_attempt.map(|_| join_handle)
    }

    /// Send a task to the `ThreadPool` that completes the given `Future` and return a [`JoinHandle`](struct.JoinHandle.html)
    /// that may be used to await the result. This function simply calls [`evaluate()`](struct.ThreadPool.html#method.evaluate)
    /// with a closure that calls `block_on` with the provided future.
    ///
    /// # Panic
    ///
    /// This function panics if the task fails to be sent to the `ThreadPool` due to the channel being broken.
    pub fn complete<R: Send + 'static>(
        &self,
        future: impl Future<Output = R> + 'static + Send,
    ) -> JoinHandle<R> {
        self.evaluate(|| block_on(future))
    }

    /// Send a task to the `ThreadPool` that completes the given `Future` and return a [`JoinHandle`](struct.JoinHandle.html)
    /// that may be used to await the result. This function simply calls [`try_evaluate()`](struct.ThreadPool.html#method.try_evaluate)
    /// with a closure that calls `block_on` with the provided future.
    ///
    /// # Errors
    ///
    /// This function returns `crossbeam_channel::SendError` if the task fails to be sent to the `ThreadPool` due to the channel being broken.
    pub fn try_complete<R: Send + 'static>(
        &self,
        future: impl Future<Output = R> + 'static + Send,
    ) -> Result<JoinHandle<R>, crossbeam_channel::SendError<Job>> {
        self.try_evaluate(|| block_on(future))
    }

    /// Submit a `Future` to be polled by this `ThreadPool`. Unlike [`complete()`](struct.ThreadPool.html#method.complete) this does not
    /// block a worker until the `Future` has been completed but polls the `Future` once at a time and creates a `Waker`
    /// that re-submits the Future to this pool when awakened. Since `Arc<AsyncTask>` implements the [`Task`](trait.Task.html) trait this
    /// function simply constructs the `AsyncTask` and calls [`execute()`](struct.ThreadPool.html#method.execute).
    ///
    /// # Panic
    ///
    /// This function panics if the task fails to be sent to the `ThreadPool` due to the channel being broken.
    #[cfg(feature = "async")]
    pub fn spawn(&self, future: impl Future<Output = ()> + 'static + Send) {
        let future_task = Arc::new(AsyncTask {
            future: Mutex::new(Some(Box::pin(future))),
            pool: self.clone(),
        });

        self.execute(future_task)
    }

    /// Submit a `Future` to be polled by this `ThreadPool`. Unlike [`try_complete()`](struct.ThreadPool.html#method.try_complete) this does not
    /// block a worker until the `Future` has been completed but polls the `Future` once at a time and creates a `Waker`
    /// that re-submits the Future to this pool when awakened. Since `Arc<AsyncTask>` implements the [`Task`](trait.Task.html) trait this
    /// function simply constructs the `AsyncTask` and calls [`try_execute()`](struct.ThreadPool.html#method.try_execute).
    ///
    /// # Errors
    ///
    /// This function returns `crossbeam_channel::SendError` if the task fails to be sent to the `ThreadPool` due to the channel being broken.
    #[cfg(feature = "async")]
    pub fn try_spawn(
        &self,
        future: impl Future<Output = ()> + 'static + Send,
    ) -> Result<(), crossbeam_channel::SendError<Job>> {
        let future_task = Arc::new(AsyncTask {
            future: Mutex::new(Some(Box::pin(future))),
            pool: self.clone(),
        });

        self.try_execute(future_task)
    }

    /// Create a top-level `Future` that awaits the provided `Future` and then sends the result to the
    /// returned [`JoinHandle`](struct.JoinHandle.html). Unlike [`complete()`](struct.ThreadPool.html#method.complete) this does not
    /// block a worker until the `Future` has been completed but polls the `Future` once at a time and creates a `Waker`
    /// that re-submits the Future to this pool when awakened. Since `Arc<AsyncTask>` implements the [`Task`](trait.Task.html) trait this
    /// function simply constructs the `AsyncTask` and calls [`execute()`](struct.ThreadPool.html#method.execute).
    ///
    /// This enables awaiting the final result outside of an async context like [`complete()`](struct.ThreadPool.html#method.complete) while still
    /// polling the future lazily instead of eagerly blocking the worker until the future is done.
    ///
    /// # Panic
    ///
    /// This function panics if the task fails to be sent to the `ThreadPool` due to the channel being broken.
    #[cfg(feature = "async")]
    pub fn spawn_await<R: Send + 'static>(
        &self,
        future: impl Future<Output = R> + 'static + Send,
    ) -> JoinHandle<R> {
        match self.try_spawn_await(future) {
            Ok(handle) => handle,
            Err(e) => panic!("the channel of the thread pool has been closed: {:?}", e),
        }
    }

    /// Create a top-level `Future` that awaits the provided `Future` and then sends the result to the
    /// returned [`JoinHandle`](struct.JoinHandle.html). Unlike [`try_complete()`](struct.ThreadPool.html#method.try_complete) this does not
    /// block a worker until the `Future` has been completed but polls the `Future` once at a time and creates a `Waker`
    /// that re-submits the Future to this pool when awakened. Since `Arc<AsyncTask>` implements the [`Task`](trait.Task.html) trait this
    /// function simply constructs the `AsyncTask` and calls [`try_execute()`](struct.ThreadPool.html#method.try_execute).
    ///
    /// This enables awaiting the final result outside of an async context like [`complete()`](struct.ThreadPool.html#method.complete) while still
    /// polling the future lazily instead of eagerly blocking the worker until the future is done.
    ///
    /// # Errors
    ///
    /// This function returns `crossbeam_channel::SendError` if the task fails to be sent to the `ThreadPool` due to the channel being broken.
    #[cfg(feature = "async")]
    pub fn try_spawn_await<R: Send + 'static>(
        &self,
        future: impl Future<Output = R> + 'static + Send,
    ) -> Result<JoinHandle<R>, crossbeam_channel::SendError<Job>> {
        let (sender, receiver) = oneshot::channel::<R>();
        let join_handle = JoinHandle { receiver };

        self.try_spawn(async {
            let result = future.await;
            // if the receiver was dropped that means the caller was not interested in the result
            let _ignored_result = sender.send(result);
        })
        .map(|_| join_handle)
    }

    #[inline]
    fn try_execute_task(&self, task: Job) -> Result<(), crossbeam_channel::SendError<Job>> {
        // create a new worker either if the current worker count is lower than the core pool size
        // or if there are no idle threads and the current worker count is lower than the max pool size
        let worker_count_data = &self.worker_data.worker_count_data;
        let mut worker_count_val = worker_count_data.worker_count.load(Ordering::Relaxed);
        let (mut curr_worker_count, idle_worker_count) = WorkerCountData::split(worker_count_val);
        let mut curr_idle_count = idle_worker_count;

        // always create a new worker if current pool size is below core size
        if curr_worker_count < self.core_size {
            let witnessed =
                worker_count_data.try_increment_worker_total(worker_count_val, self.core_size);

            // the witnessed value matched the expected value, meaning the initial exchange succeeded, or the final witnessed
            // value is still below the coreSize, meaning the increment eventually succeeded
            if witnessed == worker_count_val
                || WorkerCountData::get_total_count(witnessed) < self.core_size
            {
                let worker = Worker::new(
                    self.channel_data.receiver.clone(),
                    Arc::clone(&self.worker_data),
                    None,
                );

                worker.start(Some(task));
                return Ok(());
            }

            curr_worker_count = WorkerCountData::get_total_count(witnessed);
            curr_idle_count = WorkerCountData::get_idle_count(witnessed);
            worker_count_val = witnessed;
        }

        // create a new worker if the current worker count is below the maxSize and the pool has been observed to be busy
        // (no idle workers) during the invocation of this function
        if curr_worker_count < self.max_size && (idle_worker_count == 0 || curr_idle_count == 0) {
            let witnessed =
                worker_count_data.try_increment_worker_total(worker_count_val, self.max_size);

            if witnessed == worker_count_val
                || WorkerCountData::get_total_count(witnessed) < self.max_size
            {
                let worker = Worker::new(
                    self.channel_data.receiver.clone(),
                    Arc::clone(&self.worker_data),
                    Some(self.keep_alive),
                );

                worker.start(Some(task));
                return Ok(());
            }
        }

        self.send_task_to_channel(task)
    }

    /// Blocks the current thread until there aren't any non-idle threads anymore.
    /// This includes work started after calling this function.
    /// This function blocks until the next time this `ThreadPool` completes all of its work,
    /// except if all threads are idle and the channel is empty at the time of calling this
    /// function, in which case it will fast-return.
    ///
    /// This utilizes a `Condvar` that is notified by workers when they complete a job and notice
    /// that the channel is currently empty and it was the last thread to finish the current
    /// generation of work (i.e. when incrementing the idle worker counter brings the value
    /// up to the total worker counter, meaning it's the last thread to become idle).
    pub fn join(&self) {
        self.inner_join(None);
    }

    /// Blocks the current thread until there aren't any non-idle threads anymore or until the
    /// specified time_out Duration passes, whichever happens first.
    /// This includes work started after calling this function.
    /// This function blocks until the next time this `ThreadPool` completes all of its work,
    /// (or until the time_out is reached) except if all threads are idle and the channel is
    /// empty at the time of calling this function, in which case it will fast-return.
    ///
    /// This utilizes a `Condvar` that is notified by workers when they complete a job and notice
    /// that the channel is currently empty and it was the last thread to finish the current
    /// generation of work (i.e. when incrementing the idle worker counter brings the value
    /// up to the total worker counter, meaning it's the last thread to become idle).
    pub fn join_timeout(&self, time_out: Duration) {
        self.inner_join(Some(time_out));
    }

    /// Destroy this `ThreadPool` by claiming ownership and dropping the value,
    /// causing the `Sender` to drop thus disconnecting the channel.
    /// Threads in this pool that are currently executing a task will finish what
    /// they're doing until they check the channel, discovering that it has been
    /// disconnected from the sender and thus terminate their work loop.
    ///
    /// If other clones of this `ThreadPool` exist the sender will remain intact
    /// and tasks submitted to those clones will succeed, this includes pending
    /// `AsyncTask` instances as they hold an owned clone of the `ThreadPool`
    /// to re-submit awakened futures.
    pub fn shutdown(self) {
        drop(self);
    }

    /// Destroy this `ThreadPool` by claiming ownership and dropping the value,
    /// causing the `Sender` to drop thus disconnecting the channel.
    /// Threads in this pool that are currently executing a task will finish what
    /// they're doing until they check the channel, discovering that it has been
    /// disconnected from the sender and thus terminate their work loop.
    ///
    /// If other clones of this `ThreadPool` exist the sender will remain intact
    /// and tasks submitted to those clones will succeed, this includes pending
    /// `AsyncTask` instances as they hold an owned clone of the `ThreadPool`
    /// to re-submit awakened futures.
    ///
    /// This function additionally joins all workers after dropping the pool to
    /// wait for all work to finish.
    /// Blocks the current thread until there aren't any non-idle threads anymore.
    /// This function blocks until this `ThreadPool` completes all of its work,
    /// except if all threads are idle and the channel is empty at the time of
    /// calling this function, in which case the join will fast-return.
    /// If other live clones of this `ThreadPool` exist this behaves the same as
    /// calling [`join`](struct.ThreadPool.html#method.join) on a live `ThreadPool` as tasks submitted
    /// to one of the clones will be joined as well.
    ///
    /// The join utilizes a `Condvar` that is notified by workers when they complete a job and notice
    /// that the channel is currently empty and it was the last thread to finish the current
    /// generation of work (i.e. when incrementing the idle worker counter brings the value
    /// up to the total worker counter, meaning it's the last thread to become idle).
    pub fn shutdown_join(self) {
        self.inner_shutdown_join(None);
    }

    /// Destroy this `ThreadPool` by claiming ownership and dropping the value,
    /// causing the `Sender` to drop thus disconnecting the channel.
    /// Threads in this pool that are currently executing a task will finish what
    /// they're doing until they check the channel, discovering that it has been
    /// disconnected from the sender and thus terminate their work loop.
    ///
    /// If other clones of this `ThreadPool` exist the sender will remain intact
    /// and tasks submitted to those clones will succeed, this includes pending
    /// `AsyncTask` instances as they hold an owned clone of the `ThreadPool`
    /// to re-submit awakened futures.
    ///
    /// This function additionally joins all workers after dropping the pool to
    /// wait for all work to finish.
    /// Blocks the current thread until there aren't any non-idle threads anymore or until the
    /// specified time_out Duration passes, whichever happens first.
    /// This function blocks until this `ThreadPool` completes all of its work,
    /// (or until the time_out is reached) except if all threads are idle and the channel is
    /// empty at the time of calling this function, in which case the join will fast-return.
    /// If other live clones of this `ThreadPool` exist this behaves the same as
    /// calling [`join`](struct.ThreadPool.html#method.join) on a live `ThreadPool` as tasks submitted
    /// to one of the clones will be joined as well.
    ///
    /// The join utilizes a `Condvar` that is notified by workers when they complete a job and notice
    /// that the channel is currently empty and it was the last thread to finish the current
    /// generation of work (i.e. when incrementing the idle worker counter brings the value
    /// up to the total worker counter, meaning it's the last thread to become idle).
    pub fn shutdown_join_timeout(self, timeout: Duration) {
        self.inner_shutdown_join(Some(timeout));
    }

    /// Return the name of this pool, used as prefix for each worker thread.
    pub fn get_name(&self) -> &str {
        &self.worker_data.pool_name
    }

    /// Starts all core workers by creating core idle workers until the total worker count reaches the core count.
    ///
    /// Returns immediately if the current worker count is already >= core size.
    pub fn start_core_threads(&self) {
        let worker_count_data = &self.worker_data.worker_count_data;

        let core_size = self.core_size;
        let mut curr_worker_count = worker_count_data.worker_count.load(Ordering::Relaxed);
        if WorkerCountData::get_total_count(curr_worker_count) >= core_size {
            return;
        }

        loop {
            let witnessed = worker_count_data.try_increment_worker_count(
                curr_worker_count,
                INCREMENT_TOTAL | INCREMENT_IDLE,
                core_size,
            );

            if WorkerCountData::get_total_count(witnessed) >= core_size {
                return;
            }

            let worker = Worker::new(
                self.channel_data.receiver.clone(),
                Arc::clone(&self.worker_data),
                None,
            );

            worker.start(None);
            curr_worker_count = witnessed;
        }
    }

    #[inline]
    fn send_task_to_channel(&self, task: Job) -> Result<(), crossbeam_channel::SendError<Job>> {
        self.channel_data.sender.send(task)?;

        Ok(())
    }

    #[inline]
    fn inner_join(&self, time_out: Option<Duration>) {
        ThreadPool::_do_join(&self.worker_data, &self.channel_data.receiver, time_out);
    }

    #[inline]
    fn inner_shutdown_join(self, timeout: Option<Duration>) {
        let current_worker_data = self.worker_data.clone();
        let receiver = self.channel_data.receiver.clone();
        drop(self);
        ThreadPool::_do_join(&current_worker_data, &receiver, timeout);
    }

    #[inline]
    fn _do_join(
        current_worker_data: &Arc<WorkerData>,
        receiver: &crossbeam_channel::Receiver<Job>,
        time_out: Option<Duration>,
    ) {
        // no thread is currently doing any work, return
        if ThreadPool::is_idle(current_worker_data, receiver) {
            return;
        }

        let join_generation = current_worker_data.join_generation.load(Ordering::SeqCst);
        let guard = current_worker_data
            .join_notify_mutex
            .lock()
            .expect("could not get join notify mutex lock");

        match time_out {
            Some(time_out) => {
                let _ret_guard = current_worker_data
                    .join_notify_condvar
                    .wait_timeout_while(guard, time_out, |_| {
                        join_generation
                            == current_worker_data.join_generation.load(Ordering::Relaxed)
                            && !ThreadPool::is_idle(current_worker_data, receiver)
                    })
                    .expect("could not wait for join condvar");
            }
            None => {
                let _ret_guard = current_worker_data
                    .join_notify_condvar
                    .wait_while(guard, |_| {
                        join_generation
                            == current_worker_data.join_generation.load(Ordering::Relaxed)
                            && !ThreadPool::is_idle(current_worker_data, receiver)
                    })
                    .expect("could not wait for join condvar");
            }
        };

        // increment generation if current thread is first thread to be awakened from wait in current generation
        let _ = current_worker_data.join_generation.compare_exchange(
            join_generation,
            join_generation.wrapping_add(1),
            Ordering::SeqCst,
            Ordering::SeqCst,
        );
    }

    #[inline]
    fn is_idle(
        current_worker_data: &Arc<WorkerData>,
        receiver: &crossbeam_channel::Receiver<Job>,
    ) -> bool {
        let (current_worker_count, current_idle_count) =
            current_worker_data.worker_count_data.get_both();
        current_idle_count == current_worker_count && receiver.is_empty()
    }
}

impl Default for ThreadPool {
    /// create default ThreadPool with the core pool size being equal to the number of cpus
    /// and the max_size being twice the core size with a 60 second timeout
    fn default() -> Self {
        let num_cpus = num_cpus::get();
        ThreadPool::new(
            num_cpus,
            std::cmp::max(num_cpus, num_cpus * 2),
            Duration::from_secs(60),
        )
    }
}

/// A helper struct to aid creating a new `ThreadPool` using default values where no value was
/// explicitly specified.
#[derive(Default)]
pub struct Builder {
    name: Option<String>,
    core_size: Option<usize>,
    max_size: Option<usize>,
    keep_alive: Option<Duration>,
}

impl Builder {
    /// Create a new `Builder`.
    pub fn new() -> Builder {
        Builder::default()
    }

    /// Specify the name of the `ThreadPool` that will be used as prefix for the name of each worker thread.
    /// By default the name is "rusty_pool_x" with x being a static pool counter.
    pub fn name(mut self, name: String) -> Builder {
        self.name = Some(name);
        self
    }

    /// Specify the core pool size for the `ThreadPool`. The core pool size is the number of threads that stay alive
    /// for the entire lifetime of the `ThreadPool` or, to be more precise, its channel. These threads are spawned if
    /// a task is submitted to the `ThreadPool` and the current worker count is below the core pool size.
    pub fn core_size(mut self, size: usize) -> Builder {
        self.core_size = Some(size);
        self
    }

    /// Specify the maximum pool size this `ThreadPool` may scale up to. This numbers represents the maximum number
    /// of threads that may be alive at the same time within this pool. Additional threads above the core pool size
    /// only remain idle for the duration specified by the `keep_alive` parameter before terminating. If the core pool
    /// is full, the current pool size is below the max size and there are no idle threads then additional threads
    /// will be spawned.
    pub fn max_size(mut self, size: usize) -> Builder {
        self.max_size = Some(size);
        self
    }

    /// Specify the duration for which additional threads outside the core pool remain alive while not receiving any
    /// work before giving up and terminating.
    pub fn keep_alive(mut self, keep_alive: Duration) -> Builder {
        self.keep_alive = Some(keep_alive);
        self
    }

    /// Build the `ThreadPool` using the parameters previously supplied to this `Builder` using the number of CPUs as
    /// default core size if none provided, twice the core size as max size if none provided, 60 seconds keep_alive
    /// if none provided and the default naming (rusty_pool_{pool_number}) if none provided.
    /// This function calls [`ThreadPool::new`](struct.ThreadPool.html#method.new) or
    /// [`ThreadPool::new_named`](struct.ThreadPool.html#method.new_named) depending on whether a name was provided.
    ///
    /// # Panics
    ///
    /// Building might panic if the `max_size` is 0 or lower than `core_size` or exceeds half
    /// the size of usize. This restriction exists because two counters (total workers and
    /// idle counters) are stored within one AtomicUsize.
    pub fn build(self) -> ThreadPool {
        use std::cmp::{max, min};

        let core_size = self.core_size.unwrap_or_else(|| {
            let num_cpus = num_cpus::get();
            if let Some(max_size) = self.max_size {
                min(MAX_SIZE, min(num_cpus, max_size))
            } else {
                min(MAX_SIZE, num_cpus)
            }
        });
        // handle potential overflow: try using twice the core_size or return core_size
        let max_size = self
            .max_size
            .unwrap_or_else(|| min(MAX_SIZE, max(core_size, core_size * 2)));
        let keep_alive = self.keep_alive.unwrap_or_else(|| Duration::from_secs(60));

        if let Some(name) = self.name {
            ThreadPool::new_named(name, core_size, max_size, keep_alive)
        } else {
            ThreadPool::new(core_size, max_size, keep_alive)
        }
    }
}

#[derive(Clone)]
struct Worker {
    receiver: crossbeam_channel::Receiver<Job>,
    worker_data: Arc<WorkerData>,
    keep_alive: Option<Duration>,
}

impl Worker {
    fn new(
        receiver: crossbeam_channel::Receiver<Job>,
        worker_data: Arc<WorkerData>,
        keep_alive: Option<Duration>,
    ) -> Self {
        Worker {
            receiver,
            worker_data,
            keep_alive,
        }
    }

    fn start(self, task: Option<Job>) {
        let worker_name = format!(
            "{}_thread_{}",
            self.worker_data.pool_name,
            self.worker_data
                .worker_number
                .fetch_add(1, Ordering::Relaxed)
        );

        thread::Builder::new()
            .name(worker_name)
            .spawn(move || {
                let mut sentinel = Sentinel::new(&self);

                if let Some(task) = task {
                    self.exec_task_and_notify(&mut sentinel, task);
                }

                loop {
                    // the two functions return different error types, but since the error type doesn't matter it is mapped to unit to make them compatible
                    let received_task: Result<Job, _> = match self.keep_alive {
                        Some(keep_alive) => self.receiver.recv_timeout(keep_alive).map_err(|_| ()),
                        None => self.receiver.recv().map_err(|_| ()),
                    };

                    match received_task {
                        Ok(task) => {
                            // mark current as no longer idle and execute task
                            self.worker_data.worker_count_data.decrement_worker_idle();
                            self.exec_task_and_notify(&mut sentinel, task);
                        }
                        Err(_) => {
                            // either channel was broken because the sender disconnected or, if can_timeout is true, the Worker has not received any work during
                            // its keep_alive period and will now terminate, break working loop
                            break;
                        }
                    }
                }

                // can decrement both at once as the thread only gets here from an idle state
                // (if waiting for work and receiving an error)
                self.worker_data.worker_count_data.decrement_both();
            })
            .expect("could not spawn thread");
    }

    #[inline]
    fn exec_task_and_notify(&self, sentinel: &mut Sentinel, task: Job) {
        sentinel.is_working = true;
        task();
        sentinel.is_working = false;
        // can already mark as idle as this thread will continue the work loop
        self.mark_idle_and_notify_joiners_if_no_work();
    }

    #[inline]
    fn mark_idle_and_notify_joiners_if_no_work(&self) {
        let (old_total_count, old_idle_count) = self
            .worker_data
            .worker_count_data
            .increment_worker_idle_ret_both();
        // if the last task was the last one in the current generation,
        // i.e. if incrementing the idle count leads to the idle count
        // being equal to the total worker count, notify joiners
        if old_total_count == old_idle_count + 1 && self.receiver.is_empty() {
            let _lock = self
                .worker_data
                .join_notify_mutex
                .lock()
                .expect("could not get join notify mutex lock");
            self.worker_data.join_notify_condvar.notify_all();
        }
    }
}

/// Type that exists to manage worker exit on panic.
///
/// This type is constructed once per `Worker` and implements `Drop` to handle proper worker exit
/// in case the worker panics when executing the current task or anywhere else in its work loop.
/// If the `Sentinel` is dropped at the end of the worker's work loop and the current thread is
/// panicking, handle worker exit the same way as if the task completed normally (if the worker
/// panicked while executing a submitted task) then clone the worker and start it with an initial
/// task of `None`.
struct Sentinel<'s> {
    is_working: bool,
    worker_ref: &'s Worker,
}

impl Sentinel<'_> {
    fn new(worker_ref: &Worker) -> Sentinel<'_> {
        Sentinel {
            is_working: false,
            worker_ref,
        }
    }
}

impl Drop for Sentinel<'_> {
    fn drop(&mut self) {
        if thread::panicking() {
            if self.is_working {
                // worker thread panicked in the process of executing a submitted task,
                // run the same logic as if the task completed normally and mark it as
                // idle, since a clone of this worker will start the work loop as idle
                // thread
                self.worker_ref.mark_idle_and_notify_joiners_if_no_work();
            }

            let worker = self.worker_ref.clone();
            worker.start(None);
        }
    }
}

const WORKER_IDLE_MASK: usize = MAX_SIZE;
const INCREMENT_TOTAL: usize = 1 << (BITS / 2);
const INCREMENT_IDLE: usize = 1;

/// Struct that stores and handles an `AtomicUsize` that stores the total worker count
/// in the higher half of bits and the idle worker count in the lower half of bits.
/// This allows to to increment / decrement both counters in a single atomic operation.
#[derive(Default)]
struct WorkerCountData {
    worker_count: AtomicUsize,
}

impl WorkerCountData {
    fn get_total_worker_count(&self) -> usize {
        let curr_val = self.worker_count.load(Ordering::Relaxed);
        WorkerCountData::get_total_count(curr_val)
    }

    fn get_idle_worker_count(&self) -> usize {
        let curr_val = self.worker_count.load(Ordering::Relaxed);
        WorkerCountData::get_idle_count(curr_val)
    }

    fn get_both(&self) -> (usize, usize) {
        let curr_val = self.worker_count.load(Ordering::Relaxed);
        WorkerCountData::split(curr_val)
    }

    // keep for testing and completion's sake
    #[allow(dead_code)]
    fn increment_both(&self) -> (usize, usize) {
        let old_val = self
            .worker_count
            .fetch_add(INCREMENT_TOTAL | INCREMENT_IDLE, Ordering::Relaxed);
        WorkerCountData::split(old_val)
    }

    fn decrement_both(&self) -> (usize, usize) {
        let old_val = self
            .worker_count
            .fetch_sub(INCREMENT_TOTAL | INCREMENT_IDLE, Ordering::Relaxed);
        WorkerCountData::split(old_val)
    }

    fn try_increment_worker_total(&self, expected: usize, max_total: usize) -> usize {
        self.try_increment_worker_count(expected, INCREMENT_TOTAL, max_total)
    }

    fn try_increment_worker_count(
        &self,
        mut expected: usize,
        increment: usize,
        max_total: usize,
    ) -> usize {
        loop {
            match self.worker_count.compare_exchange_weak(
                expected,
                expected + increment,
                Ordering::Relaxed,
                Ordering::Relaxed,
            ) {
                Ok(witnessed) => return witnessed,
                Err(witnessed) if WorkerCountData::get_total_count(witnessed) >= max_total => {
                    return witnessed
                }
                Err(witnessed) => expected = witnessed,
            }
        }
    }

    // keep for testing and completion's sake
    #[allow(dead_code)]
    fn increment_worker_total(&self) -> usize {
        let old_val = self
            .worker_count
            .fetch_add(INCREMENT_TOTAL, Ordering::Relaxed);
        WorkerCountData::get_total_count(old_val)
    }

    // keep for testing and completion's sake
    #[allow(dead_code)]
    fn increment_worker_total_ret_both(&self) -> (usize, usize) {
        let old_val = self
            .worker_count
            .fetch_add(INCREMENT_TOTAL, Ordering::Relaxed);
        WorkerCountData::split(old_val)
    }

    // keep for testing and completion's sake
    #[allow(dead_code)]
    fn decrement_worker_total(&self) -> usize {
        let old_val = self
            .worker_count
            .fetch_sub(INCREMENT_TOTAL, Ordering::Relaxed);
        WorkerCountData::get_total_count(old_val)
    }

    // keep for testing and completion's sake
    #[allow(dead_code)]
    fn decrement_worker_total_ret_both(&self) -> (usize, usize) {
        let old_val = self
            .worker_count
            .fetch_sub(INCREMENT_TOTAL, Ordering::Relaxed);
        WorkerCountData::split(old_val)
    }

    // keep for testing and completion's sake
    #[allow(dead_code)]
    fn increment_worker_idle(&self) -> usize {
        let old_val = self
            .worker_count
            .fetch_add(INCREMENT_IDLE, Ordering::Relaxed);
        WorkerCountData::get_idle_count(old_val)
    }

    fn increment_worker_idle_ret_both(&self) -> (usize, usize) {
        let old_val = self
            .worker_count
            .fetch_add(INCREMENT_IDLE, Ordering::Relaxed);
        WorkerCountData::split(old_val)
    }

    fn decrement_worker_idle(&self) -> usize {
        let old_val = self
            .worker_count
            .fetch_sub(INCREMENT_IDLE, Ordering::Relaxed);
        WorkerCountData::get_idle_count(old_val)
    }

    // keep for testing and completion's sake
    #[allow(dead_code)]
    fn decrement_worker_idle_ret_both(&self) -> (usize, usize) {
        let old_val = self
            .worker_count
            .fetch_sub(INCREMENT_IDLE, Ordering::Relaxed);
        WorkerCountData::split(old_val)
    }

    #[inline]
    fn split(val: usize) -> (usize, usize) {
        let total_count = val >> (BITS / 2);
        let idle_count = val & WORKER_IDLE_MASK;
        (total_count, idle_count)
    }

    #[inline]
    fn get_total_count(val: usize) -> usize {
        val >> (BITS / 2)
    }

    #[inline]
    fn get_idle_count(val: usize) -> usize {
        val & WORKER_IDLE_MASK
    }
}

/// struct containing data shared between workers
struct WorkerData {
    pool_name: String,
    worker_count_data: WorkerCountData,
    worker_number: AtomicUsize,
    join_notify_condvar: Condvar,
    join_notify_mutex: Mutex<()>,
    join_generation: AtomicUsize,
}

struct ChannelData {
    sender: crossbeam_channel::Sender<Job>,
    receiver: crossbeam_channel::Receiver<Job>,
}

#[cfg(test)]
mod tests {

    use std::sync::{
        atomic::{AtomicUsize, Ordering},
        Arc,
    };
    use std::thread;
    use std::time::Duration;

    use super::Builder;
    use super::ThreadPool;
    use super::WorkerCountData;

    #[test]
    fn it_works() {
        let pool = ThreadPool::new(2, 10, Duration::from_secs(5));
        let count = Arc::new(AtomicUsize::new(0));

        let count1 = count.clone();
        pool.execute(move || {
            count1.fetch_add(1, Ordering::Relaxed);
            thread::sleep(std::time::Duration::from_secs(4));
        });
        let count2 = count.clone();
        pool.execute(move || {
            count2.fetch_add(1, Ordering::Relaxed);
            thread::sleep(std::time::Duration::from_secs(4));
        });
        let count3 = count.clone();
        pool.execute(move || {
            count3.fetch_add(1, Ordering::Relaxed);
            thread::sleep(std::time::Duration::from_secs(4));
        });
        let count4 = count.clone();
        pool.execute(move || {
            count4.fetch_add(1, Ordering::Relaxed);
            thread::sleep(std::time::Duration::from_secs(4));
        });
        thread::sleep(std::time::Duration::from_secs(20));
        let count5 = count.clone();
        pool.execute(move || {
            count5.fetch_add(1, Ordering::Relaxed);
            thread::sleep(std::time::Duration::from_secs(4));
        });
        let count6 = count.clone();
        pool.execute(move || {
            count6.fetch_add(1, Ordering::Relaxed);
            thread::sleep(std::time::Duration::from_secs(4));
        });
        let count7 = count.clone();
        pool.execute(move || {
            count7.fetch_add(1, Ordering::Relaxed);
            thread::sleep(std::time::Duration::from_secs(4));
        });
        let count8 = count.clone();
        pool.execute(move || {
            count8.fetch_add(1, Ordering::Relaxed);
            thread::sleep(std::time::Duration::from_secs(4));
        });
        thread::sleep(std::time::Duration::from_secs(20));

        let count = count.load(Ordering::Relaxed);
        let worker_count = pool.get_current_worker_count();

        assert_eq!(count, 8);
        // assert that non-core threads were dropped
        assert_eq!(worker_count, 2);
        assert_eq!(pool.get_idle_worker_count(), 2);
    }

    #[test]
    #[ignore]
    fn stress_test() {
        let pool = Arc::new(ThreadPool::new(3, 50, Duration::from_secs(30)));
        let counter = Arc::new(AtomicUsize::new(0));

        for _ in 0..5 {
            let pool_1 = pool.clone();
            let clone = counter.clone();
            pool.execute(move || {
                for _ in 0..160 {
                    let clone = clone.clone();
                    pool_1.execute(move || {
                        clone.fetch_add(1, Ordering::Relaxed);
                        thread::sleep(Duration::from_secs(10));
                    });
                }

                thread::sleep(Duration::from_secs(20));

                for _ in 0..160 {
                    let clone = clone.clone();
                    pool_1.execute(move || {
                        clone.fetch_add(1, Ordering::Relaxed);
                        thread::sleep(Duration::from_secs(10));
                    });
                }
            });
        }

        thread::sleep(Duration::from_secs(10));
        assert_eq!(pool.get_current_worker_count(), 50);

        pool.join();
        assert_eq!(counter.load(Ordering::Relaxed), 1600);
        thread::sleep(Duration::from_secs(31));
        assert_eq!(pool.get_current_worker_count(), 3);
    }

    #[test]
    fn test_join() {
        // use a thread pool with one thread max to make sure the second task starts after
        // pool.join() is called to make sure it joins future tasks as well
        let pool = ThreadPool::new(0, 1, Duration::from_secs(5));
        let counter = Arc::new(AtomicUsize::new(0));

        let clone_1 = counter.clone();
        pool.execute(move || {
            thread::sleep(Duration::from_secs(5));
            clone_1.fetch_add(1, Ordering::Relaxed);
        });

        let clone_2 = counter.clone();
        pool.execute(move || {
            thread::sleep(Duration::from_secs(5));
            clone_2.fetch_add(1, Ordering::Relaxed);
        });

        pool.join();

        assert_eq!(counter.load(Ordering::Relaxed), 2);
    }

    #[test]
    fn test_join_timeout() {
        let pool = ThreadPool::new(0, 1, Duration::from_secs(5));
        let counter = Arc::new(AtomicUsize::new(0));

        let clone = counter.clone();
        pool.execute(move || {
            thread::sleep(Duration::from_secs(10));
            clone.fetch_add(1, Ordering::Relaxed);
        });

        pool.join_timeout(Duration::from_secs(5));
        assert_eq!(counter.load(Ordering::Relaxed), 0);
        pool.join();
        assert_eq!(counter.load(Ordering::Relaxed), 1);
    }

    #[test]
    fn test_shutdown() {
        let pool = ThreadPool::new(1, 3, Duration::from_secs(5));
        let counter = Arc::new(AtomicUsize::new(0));

        let clone_1 = counter.clone();
        pool.execute(move || {
            thread::sleep(Duration::from_secs(5));
            clone_1.fetch_add(1, Ordering::Relaxed);
        });

        let clone_2 = counter.clone();
        pool.execute(move || {
            thread::sleep(Duration::from_secs(5));
            clone_2.fetch_add(1, Ordering::Relaxed);
        });

        let clone_3 = counter.clone();
        pool.execute(move || {
            thread::sleep(Duration::from_secs(5));
            clone_3.fetch_add(1, Ordering::Relaxed);
        });

        // since the pool only allows three threads this won't get the chance to run
        let clone_4 = counter.clone();
        pool.execute(move || {
            thread::sleep(Duration::from_secs(5));
            clone_4.fetch_add(1, Ordering::Relaxed);
        });

        pool.join_timeout(Duration::from_secs(2));
        pool.shutdown();

        thread::sleep(Duration::from_secs(5));

        assert_eq!(counter.load(Ordering::Relaxed), 3);
    }

    #[should_panic(
        expected = "max_size must be greater than 0 and greater or equal to the core pool size"
    )]
    #[test]
    fn test_panic_on_0_max_pool_size() {
        ThreadPool::new(0, 0, Duration::from_secs(2));
    }

    #[should_panic(
        expected = "max_size must be greater than 0 and greater or equal to the core pool size"
    )]
    #[test]
    fn test_panic_on_smaller_max_than_core_pool_size() {
        ThreadPool::new(10, 4, Duration::from_secs(2));
    }

    #[should_panic(expected = "max_size may not exceed")]
    #[test]
    fn test_panic_on_max_size_exceeds_half_usize() {
        ThreadPool::new(
            10,
            1 << ((std::mem::size_of::<usize>() * 8) / 2),
            Duration::from_secs(2),
        );
    }

    #[test]
    fn test_empty_join() {
        let pool = ThreadPool::new(3, 10, Duration::from_secs(10));
        pool.join();
    }

    #[test]
    fn test_join_when_complete() {
        let pool = ThreadPool::new(3, 10, Duration::from_secs(5));

        pool.execute(|| {
            thread::sleep(Duration::from_millis(5000));
        });

        thread::sleep(Duration::from_millis(5000));
        pool.join();
    }

    #[test]
    fn test_full_usage() {
        let pool = ThreadPool::new(5, 50, Duration::from_secs(10));

        for _ in 0..100 {
            pool.execute(|| {
                thread::sleep(Duration::from_secs(30));
            });
        }

        thread::sleep(Duration::from_secs(10));
        assert_eq!(pool.get_current_worker_count(), 50);

        pool.join();
        thread::sleep(Duration::from_secs(15));
        assert_eq!(pool.get_current_worker_count(), 5);
    }

    #[test]
    fn test_shutdown_join() {
        let pool = ThreadPool::new(1, 1, Duration::from_secs(5));
        let counter = Arc::new(AtomicUsize::new(0));

        let clone = counter.clone();
        pool.execute(move || {
            thread::sleep(Duration::from_secs(10));
            clone.fetch_add(1, Ordering::Relaxed);
        });

        pool.shutdown_join();
        assert_eq!(counter.load(Ordering::Relaxed), 1);
    }

    #[test]
    fn test_shutdown_join_timeout() {
        let pool = ThreadPool::new(1, 1, Duration::from_secs(5));
        let counter = Arc::new(AtomicUsize::new(0));

        let clone = counter.clone();
        pool.execute(move || {
            thread::sleep(Duration::from_secs(10));
            clone.fetch_add(1, Ordering::Relaxed);
        });

        pool.shutdown_join_timeout(Duration::from_secs(5));
        assert_eq!(counter.load(Ordering::Relaxed), 0);
    }

    #[test]
    fn test_empty_shutdown_join() {
        let pool = ThreadPool::new(1, 5, Duration::from_secs(5));
        pool.shutdown_join();
    }

    #[test]
    fn test_shutdown_core_pool() {
        let pool = ThreadPool::new(5, 5, Duration::from_secs(1));
        let counter = Arc::new(AtomicUsize::new(0));
        let worker_data = pool.worker_data.clone();

        for _ in 0..7 {
            let clone = counter.clone();
            pool.execute(move || {
                thread::sleep(Duration::from_secs(2));
                clone.fetch_add(1, Ordering::Relaxed);
            });
        }

        assert_eq!(pool.get_current_worker_count(), 5);
        assert_eq!(pool.get_idle_worker_count(), 0);
        pool.shutdown_join();
        assert_eq!(counter.load(Ordering::Relaxed), 7);

        // give the workers time to exit
        thread::sleep(Duration::from_millis(50));
        assert_eq!(worker_data.worker_count_data.get_total_worker_count(), 0);
        assert_eq!(worker_data.worker_count_data.get_idle_worker_count(), 0);
    }

    #[test]
    fn test_shutdown_idle_core_pool() {
        let pool = ThreadPool::new(5, 5, Duration::from_secs(1));
        let counter = Arc::new(AtomicUsize::new(0));
        let worker_data = pool.worker_data.clone();

        for _ in 0..5 {
            let clone = counter.clone();
            pool.execute(move || {
                clone.fetch_add(1, Ordering::Relaxed);
            });
        }

        pool.shutdown_join();
        assert_eq!(counter.load(Ordering::Relaxed), 5);

        // give the workers time to exit
        thread::sleep(Duration::from_millis(50));
        assert_eq!(worker_data.worker_count_data.get_total_worker_count(), 0);
        assert_eq!(worker_data.worker_count_data.get_idle_worker_count(), 0);
    }

    #[test]
    fn test_shutdown_on_complete() {
        let pool = ThreadPool::new(3, 10, Duration::from_secs(5));

        pool.execute(|| {
            thread::sleep(Duration::from_millis(5000));
        });

        thread::sleep(Duration::from_millis(5000));
        pool.shutdown_join();
    }

    #[test]
    fn test_shutdown_after_complete() {
        let pool = ThreadPool::new(3, 10, Duration::from_secs(5));

        pool.execute(|| {
            thread::sleep(Duration::from_millis(5000));
        });

        thread::sleep(Duration::from_millis(7000));
        pool.shutdown_join();
    }

    #[test]
    fn worker_count_test() {
        let worker_count_data = WorkerCountData::default();

        assert_eq!(worker_count_data.get_total_worker_count(), 0);
        assert_eq!(worker_count_data.get_idle_worker_count(), 0);

        worker_count_data.increment_both();

        assert_eq!(worker_count_data.get_total_worker_count(), 1);
        assert_eq!(worker_count_data.get_idle_worker_count(), 1);

        for _ in 0..10 {
            worker_count_data.increment_both();
        }

        assert_eq!(worker_count_data.get_total_worker_count(), 11);
        assert_eq!(worker_count_data.get_idle_worker_count(), 11);

        for _ in 0..15 {
            worker_count_data.increment_worker_total();
        }

        for _ in 0..7 {
            worker_count_data.increment_worker_idle();
        }

        assert_eq!(worker_count_data.get_total_worker_count(), 26);
        assert_eq!(worker_count_data.get_idle_worker_count(), 18);
        assert_eq!(worker_count_data.get_both(), (26, 18));

        for _ in 0..5 {
            worker_count_data.decrement_both();
        }

        assert_eq!(worker_count_data.get_total_worker_count(), 21);
        assert_eq!(worker_count_data.get_idle_worker_count(), 13);

        for _ in 0..13 {
            worker_count_data.decrement_worker_total();
        }

        for _ in 0..4 {
            worker_count_data.decrement_worker_idle();
        }

        assert_eq!(worker_count_data.get_total_worker_count(), 8);
        assert_eq!(worker_count_data.get_idle_worker_count(), 9);

        for _ in 0..456789 {
            worker_count_data.increment_worker_total();
        }

        assert_eq!(worker_count_data.get_total_worker_count(), 456797);
        assert_eq!(worker_count_data.get_idle_worker_count(), 9);
        assert_eq!(worker_count_data.get_both(), (456797, 9));

        for _ in 0..23456 {
            worker_count_data.increment_worker_idle();
        }

        assert_eq!(worker_count_data.get_total_worker_count(), 456797);
        assert_eq!(worker_count_data.get_idle_worker_count(), 23465);

        for _ in 0..150000 {
            worker_count_data.decrement_worker_total();
        }

        assert_eq!(worker_count_data.get_total_worker_count(), 306797);
        assert_eq!(worker_count_data.get_idle_worker_count(), 23465);

        for _ in 0..10000 {
            worker_count_data.decrement_worker_idle();
        }

        assert_eq!(worker_count_data.get_total_worker_count(), 306797);
        assert_eq!(worker_count_data.get_idle_worker_count(), 13465);
    }

    #[test]
    fn test_try_increment_worker_total() {
        let worker_count_data = WorkerCountData::default();

        let witness = worker_count_data.try_increment_worker_total(0, 5);
        assert_eq!(witness, 0);
        assert_eq!(worker_count_data.get_total_worker_count(), 1);
        assert_eq!(worker_count_data.get_idle_worker_count(), 0);

        let witness = worker_count_data.try_increment_worker_total(0, 5);
        assert_eq!(witness, 0x0000_0001_0000_0000);
        assert_eq!(worker_count_data.get_total_worker_count(), 2);
        assert_eq!(worker_count_data.get_idle_worker_count(), 0);

        worker_count_data.try_increment_worker_total(2, 5);
        worker_count_data.try_increment_worker_total(2, 5);
        worker_count_data.try_increment_worker_total(4, 5);
        worker_count_data.try_increment_worker_total(4, 5);
        let witness = worker_count_data.try_increment_worker_total(2, 5);
        assert_eq!(WorkerCountData::get_total_count(witness), 5);
        assert_eq!(WorkerCountData::get_idle_count(witness), 0);
        assert_eq!(worker_count_data.get_total_worker_count(), 5);
        assert_eq!(worker_count_data.get_idle_worker_count(), 0);

        let worker_count_data = Arc::new(worker_count_data);

        let mut join_handles = Vec::with_capacity(5);
        for _ in 0..5 {
            let worker_count_data = worker_count_data.clone();
            let join_handle = thread::spawn(move || {
                for i in 0..5 {
                    worker_count_data.try_increment_worker_total(5 + i, 15);
                }
            });

            join_handles.push(join_handle);
        }

        for join_handle in join_handles {
            join_handle.join().unwrap();
        }

        assert_eq!(worker_count_data.get_total_worker_count(), 15);
        assert_eq!(worker_count_data.get_idle_worker_count(), 0);
    }

    #[test]
    fn test_join_enqueued_task() {
        let pool = ThreadPool::new(3, 50, Duration::from_secs(20));
        let counter = Arc::new(AtomicUsize::new(0));

        for _ in 0..160 {
            let clone = counter.clone();
            pool.execute(move || {
                thread::sleep(Duration::from_secs(10));
                clone.fetch_add(1, Ordering::Relaxed);
            });
        }

        thread::sleep(Duration::from_secs(5));
        assert_eq!(pool.get_current_worker_count(), 50);

        pool.join();
        assert_eq!(counter.load(Ordering::Relaxed), 160);
        thread::sleep(Duration::from_secs(21));
        assert_eq!(pool.get_current_worker_count(), 3);
    }

    #[test]
    fn test_panic_all() {
        let pool = ThreadPool::new(3, 10, Duration::from_secs(2));

        for _ in 0..10 {
            pool.execute(|| {
                panic!("test");
            })
        }

        pool.join();
        thread::sleep(Duration::from_secs(5));
        assert_eq!(pool.get_current_worker_count(), 3);
        assert_eq!(pool.get_idle_worker_count(), 3);
    }

    #[test]
    fn test_panic_some() {
        let pool = ThreadPool::new(3, 10, Duration::from_secs(5));
        let counter = Arc::new(AtomicUsize::new(0));

        for i in 0..10 {
            let clone = counter.clone();
            pool.execute(move || {
                if i < 3 || i % 2 == 0 {
                    thread::sleep(Duration::from_secs(5));
                    clone.fetch_add(1, Ordering::Relaxed);
                } else {
                    thread::sleep(Duration::from_secs(5));
                    panic!("test");
                }
            })
        }

        pool.join();
        assert_eq!(counter.load(Ordering::Relaxed), 6);
        assert_eq!(pool.get_current_worker_count(), 10);
        assert_eq!(pool.get_idle_worker_count(), 10);
        thread::sleep(Duration::from_secs(10));
        assert_eq!(pool.get_current_worker_count(), 3);
        assert_eq!(pool.get_idle_worker_count(), 3);
    }

    #[test]
    fn test_panic_all_core_threads() {
        let pool = ThreadPool::new(3, 3, Duration::from_secs(1));
        let counter = Arc::new(AtomicUsize::new(0));

        for _ in 0..3 {
            pool.execute(|| {
                panic!("test");
            })
        }

        pool.join();

        for i in 0..10 {
            let clone = counter.clone();
            pool.execute(move || {
                if i < 3 || i % 2 == 0 {
                    clone.fetch_add(1, Ordering::Relaxed);
                } else {
                    thread::sleep(Duration::from_secs(5));
                    panic!("test");
                }
            })
        }

        pool.join();
        assert_eq!(counter.load(Ordering::Relaxed), 6);
        assert_eq!(pool.get_current_worker_count(), 3);
        assert_eq!(pool.get_idle_worker_count(), 3);
    }

    #[test]
    fn test_drop_all_receivers() {
        let pool = ThreadPool::new(0, 3, Duration::from_secs(5));
        let counter = Arc::new(AtomicUsize::new(0));

        for _ in 0..3 {
            let clone = counter.clone();
            pool.execute(move || {
                clone.fetch_add(1, Ordering::Relaxed);
            })
        }

        pool.join();
        assert_eq!(counter.load(Ordering::Relaxed), 3);
        thread::sleep(Duration::from_secs(10));
        assert_eq!(pool.get_current_worker_count(), 0);

        for _ in 0..3 {
            let clone = counter.clone();
            pool.execute(move || {
                clone.fetch_add(1, Ordering::Relaxed);
            })
        }

        pool.join();
        assert_eq!(counter.load(Ordering::Relaxed), 6);
    }

    #[test]
    fn test_evaluate() {
        let pool = ThreadPool::new(0, 3, Duration::from_secs(5));

        let count = AtomicUsize::new(0);

        let handle = pool.evaluate(move || {
            count.fetch_add(1, Ordering::Relaxed);
            thread::sleep(Duration::from_secs(5));
            count.fetch_add(1, Ordering::Relaxed)
        });

        let result = handle.await_complete();
        assert_eq!(result, 1);
    }

    #[test]
    fn test_multiple_evaluate() {
        let pool = ThreadPool::new(0, 3, Duration::from_secs(5));

        let count = AtomicUsize::new(0);
        let handle_1 = pool.evaluate(move || {
            for _ in 0..10000 {
                count.fetch_add(1, Ordering::Relaxed);
            }

            thread::sleep(Duration::from_secs(5));

            for _ in 0..10000 {
                count.fetch_add(1, Ordering::Relaxed);
            }

            count.load(Ordering::Relaxed)
        });

        let handle_2 = pool.evaluate(move || {
            let result = handle_1.await_complete();
            let mut count = result;

            count += 15000;

            thread::sleep(Duration::from_secs(5));

            count += 20000;

            count
        });

        let result = handle_2.await_complete();
        assert_eq!(result, 55000);
    }

    #[should_panic(expected = "could not receive message because channel was cancelled")]
    #[test]
    fn test_evaluate_panic() {
        let pool = Builder::new().core_size(5).max_size(50).build();

        let handle = pool.evaluate(|| {
            let x = 3;

            if x == 3 {
                panic!("expected panic")
            }

            return x;
        });

        handle.await_complete();
    }

    #[test]
    fn test_complete_fut() {
        let pool = ThreadPool::new(0, 3, Duration::from_secs(5));

        async fn async_fn() -> i8 {
            8
        }

        let fut = async_fn();
        let handle = pool.complete(fut);

        assert_eq!(handle.await_complete(), 8);
    }

    #[cfg(feature = "async")]
    #[test]
    fn test_spawn() {
        let pool = ThreadPool::default();

        async fn add(x: i32, y: i32) -> i32 {
            x + y
        }

        async fn multiply(x: i32, y: i32) -> i32 {
            x * y
        }

        let count = Arc::new(AtomicUsize::new(0));
        let clone = count.clone();
        pool.spawn(async move {
            let a = add(2, 3).await; // 5
            let b = add(2, a).await; // 7
            let c = multiply(2, b).await; // 14
            let d = multiply(a, add(2, 1).await).await; // 15
            let e = add(c, d).await; // 29

            clone.fetch_add(e as usize, Ordering::Relaxed);
        });

        pool.join();
        assert_eq!(count.load(Ordering::Relaxed), 29);
    }

    #[cfg(feature = "async")]
    #[test]
    fn test_spawn_await() {
        let pool = ThreadPool::default();

        async fn sub(x: i32, y: i32) -> i32 {
            x - y
        }

        async fn div(x: i32, y: i32) -> i32 {
            x / y
        }

        let handle = pool.spawn_await(async {
            let a = sub(120, 10).await; // 110
            let b = div(sub(a, 10).await, 4).await; // 25
            div(sub(b, div(10, 2).await).await, 5).await // 4
        });

        assert_eq!(handle.await_complete(), 4)
    }

    #[test]
    fn test_drop_oneshot_receiver() {
        let pool = Builder::new().core_size(1).max_size(1).build();

        let handle = pool.evaluate(|| {
            thread::sleep(Duration::from_secs(5));
            5
        });

        drop(handle);
        thread::sleep(Duration::from_secs(10));
        let current_thread_index = pool.worker_data.worker_number.load(Ordering::Relaxed);
        // current worker number of 2 means that one worker has started (initial number is 1 -> first worker gets and increments number)
        // indicating that the worker did not panic else it would have been replaced.
        assert_eq!(current_thread_index, 2);
    }

    #[test]
    fn test_builder_max_size() {
        Builder::new().max_size(1).build();
    }

    #[test]
    fn test_multi_thread_join() {
        let pool = ThreadPool::default();
        let count = Arc::new(AtomicUsize::new(0));

        let clone1 = count.clone();
        pool.execute(move || {
            thread::sleep(Duration::from_secs(10));
            clone1.fetch_add(1, Ordering::Relaxed);
        });

        let clone2 = count.clone();
        pool.execute(move || {
            thread::sleep(Duration::from_secs(10));
            clone2.fetch_add(1, Ordering::Relaxed);
        });

        let clone3 = count.clone();
        pool.execute(move || {
            thread::sleep(Duration::from_secs(10));
            clone3.fetch_add(1, Ordering::Relaxed);
        });

        let pool2 = pool.clone();
        let clone4 = count.clone();
        thread::spawn(move || {
            thread::sleep(Duration::from_secs(5));
            pool2.execute(move || {
                thread::sleep(Duration::from_secs(15));
                clone4.fetch_add(2, Ordering::Relaxed);
            });
        });

        let pool3 = pool.clone();
        let pool4 = pool.clone();
        let pool5 = pool.clone();
        let h1 = thread::spawn(move || {
            pool3.join();
        });
        let h2 = thread::spawn(move || {
            pool4.join();
        });
        let h3 = thread::spawn(move || {
            pool5.join();
        });
        h1.join().unwrap();
        h2.join().unwrap();
        h3.join().unwrap();

        assert_eq!(count.load(Ordering::Relaxed), 5);
    }

    #[test]
    fn test_start_core_threads() {
        let pool = Builder::new().core_size(5).build();
        pool.start_core_threads();
        assert_eq!(pool.get_current_worker_count(), 5);
        assert_eq!(pool.get_idle_worker_count(), 5);
    }

    #[test]
    fn test_start_and_use_core_threads() {
        let pool = Builder::new()
            .core_size(5)
            .max_size(10)
            .keep_alive(Duration::from_secs(u64::MAX))
            .build();
        pool.start_core_threads();
        let result = pool.evaluate(|| 5 + 5).await_complete();
        assert_eq!(result, 10);
        assert_eq!(pool.get_current_worker_count(), 5);
    }
}
