//! crossbeam-channel look-alike (the subset rs-store and rusty_pool use, and a little more):
//! FIFO, bounded (capacity >= 1) or unbounded, blocking send/recv decided by the simulator,
//! drain-then-disconnect semantics as documented by crossbeam.  Capacity 0 (rendezvous) is
//! modelled as "a send succeeds only while a receiver is waiting for it".

use crate::rt::{self, Obj, Op, SeamEvent, Wake};
use std::collections::VecDeque;
use std::fmt;
use std::sync::{Arc, Mutex as StdMutex};
use std::time::Duration;

struct Chan<T> {
    q: VecDeque<T>,
    cap: Option<usize>,
    senders: usize,
    receivers: usize,
    /// receivers currently blocked in recv (needed for rendezvous channels)
    recv_waiting: usize,
}

impl<T> Chan<T> {
    fn full(&self) -> bool {
        match self.cap {
            None => false,
            Some(0) => self.q.len() >= self.recv_waiting,
            Some(c) => self.q.len() >= c,
        }
    }
}

struct Shared<T> {
    id: u32,
    st: StdMutex<Chan<T>>,
}

pub struct Sender<T> {
    sh: Arc<Shared<T>>,
}

pub struct Receiver<T> {
    sh: Arc<Shared<T>>,
}

pub fn bounded<T>(cap: usize) -> (Sender<T>, Receiver<T>) {
    make(Some(cap))
}

/// a channel that never delivers anything (its sender is kept alive for ever)
pub fn never<T>() -> Receiver<T> {
    let (s, r) = bounded::<T>(1);
    std::mem::forget(s);
    r
}

pub fn unbounded<T>() -> (Sender<T>, Receiver<T>) {
    make(None)
}

fn make<T>(cap: Option<usize>) -> (Sender<T>, Receiver<T>) {
    let id = rt::new_chan_id();
    rt::emit(SeamEvent::ChanCreate { chan: id, cap, tid: rt::current_tid() });
    let sh = Arc::new(Shared {
        id,
        st: StdMutex::new(Chan { q: VecDeque::new(), cap, senders: 1, receivers: 1, recv_waiting: 0 }),
    });
    (Sender { sh: sh.clone() }, Receiver { sh })
}

impl<T> Sender<T> {
    /// simulator id of the channel (harness use)
    pub fn sim_id(&self) -> u32 {
        self.sh.id
    }

    pub fn send(&self, msg: T) -> Result<(), SendError<T>> {
        match self.send_until(msg, None) {
            Ok(()) => Ok(()),
            Err(SendTimeoutError::Disconnected(m)) | Err(SendTimeoutError::Timeout(m)) => Err(SendError(m)),
        }
    }

    pub fn send_timeout(&self, msg: T, d: Duration) -> Result<(), SendTimeoutError<T>> {
        let dl = rt::now_ns().saturating_add(d.as_nanos().min(u64::MAX as u128) as u64);
        self.send_until(msg, Some(dl))
    }

    pub fn send_deadline(&self, msg: T, deadline: crate::time::Instant) -> Result<(), SendTimeoutError<T>> {
        self.send_until(msg, Some(deadline.as_nanos()))
    }

    fn send_until(&self, msg: T, deadline_ns: Option<u64>) -> Result<(), SendTimeoutError<T>> {
        rt::point(Op::ChanSend);
        let mut msg = Some(msg);
        loop {
            {
                let mut c = self.sh.st.lock().unwrap();
                if c.receivers == 0 {
                    return Err(SendTimeoutError::Disconnected(msg.take().unwrap()));
                }
                let full = c.full();
                if !full {
                    c.q.push_back(msg.take().unwrap());
                    let len = c.q.len();
                    drop(c);
                    rt::emit(SeamEvent::ChanSend { chan: self.sh.id, tid: rt::current_tid(), len_after: len });
                    rt::wake_all(Obj::ChanRecv(self.sh.id));
                    rt::wake_all(Obj::Select);
                    return Ok(());
                }
            }
            if !rt::in_sim() {
                panic!("simrt channel: blocking send outside a simulation");
            }
            if rt::block(Obj::ChanSend(self.sh.id), deadline_ns) == Wake::TimedOut {
                // one last look, as crossbeam does
                let mut c = self.sh.st.lock().unwrap();
                if c.receivers > 0 && !c.full() {
                    c.q.push_back(msg.take().unwrap());
                    let len = c.q.len();
                    drop(c);
                    rt::emit(SeamEvent::ChanSend { chan: self.sh.id, tid: rt::current_tid(), len_after: len });
                    rt::wake_all(Obj::ChanRecv(self.sh.id));
                    rt::wake_all(Obj::Select);
                    return Ok(());
                }
                drop(c);
                rt::emit(SeamEvent::ChanFull { chan: self.sh.id, tid: rt::current_tid() });
                return Err(SendTimeoutError::Timeout(msg.take().unwrap()));
            }
        }
    }

    pub fn try_send(&self, msg: T) -> Result<(), TrySendError<T>> {
        rt::point(Op::ChanSend);
        let mut c = self.sh.st.lock().unwrap();
        if c.receivers == 0 {
            return Err(TrySendError::Disconnected(msg));
        }
        let full = c.full();
        if full {
            drop(c);
            rt::emit(SeamEvent::ChanFull { chan: self.sh.id, tid: rt::current_tid() });
            return Err(TrySendError::Full(msg));
        }
        c.q.push_back(msg);
        let len = c.q.len();
        drop(c);
        rt::emit(SeamEvent::ChanSend { chan: self.sh.id, tid: rt::current_tid(), len_after: len });
        rt::wake_all(Obj::ChanRecv(self.sh.id));
                    rt::wake_all(Obj::Select);
        Ok(())
    }

    pub fn len(&self) -> usize {
        rt::point(Op::ChanLen);
        self.sh.st.lock().unwrap().q.len()
    }
    pub fn is_empty(&self) -> bool {
        self.len() == 0
    }
    pub fn is_full(&self) -> bool {
        rt::point(Op::ChanLen);
        let c = self.sh.st.lock().unwrap();
        c.full()
    }
    pub fn capacity(&self) -> Option<usize> {
        self.sh.st.lock().unwrap().cap
    }
    pub fn same_channel(&self, other: &Sender<T>) -> bool {
        Arc::ptr_eq(&self.sh, &other.sh)
    }
}

impl<T> Clone for Sender<T> {
    fn clone(&self) -> Self {
        self.sh.st.lock().unwrap().senders += 1;
        Sender { sh: self.sh.clone() }
    }
}

impl<T> Drop for Sender<T> {
    fn drop(&mut self) {
        let last = {
            let mut c = self.sh.st.lock().unwrap();
            c.senders -= 1;
            c.senders == 0
        };
        if last {
            rt::wake_all(Obj::ChanRecv(self.sh.id));
                    rt::wake_all(Obj::Select);
        }
    }
}

impl<T> Receiver<T> {
    pub fn sim_id(&self) -> u32 {
        self.sh.id
    }

    fn recv_deadline(&self, deadline_ns: Option<u64>) -> Result<T, RecvTimeoutError> {
        rt::point(Op::ChanRecv);
        loop {
            {
                let mut c = self.sh.st.lock().unwrap();
                if let Some(m) = c.q.pop_front() {
                    let len = c.q.len();
                    drop(c);
                    rt::emit(SeamEvent::ChanRecv { chan: self.sh.id, tid: rt::current_tid(), len_after: len });
                    rt::wake_all(Obj::ChanSend(self.sh.id));
                    rt::wake_all(Obj::Select);
                    return Ok(m);
                }
                if c.senders == 0 {
                    return Err(RecvTimeoutError::Disconnected);
                }
            }
            if !rt::in_sim() {
                panic!("simrt channel: blocking recv outside a simulation");
            }
            // a rendezvous sender may go ahead while we wait
            self.sh.st.lock().unwrap().recv_waiting += 1;
            rt::wake_all(Obj::ChanSend(self.sh.id));
                    rt::wake_all(Obj::Select);
            let woke = rt::block(Obj::ChanRecv(self.sh.id), deadline_ns);
            {
                let mut c = self.sh.st.lock().unwrap();
                c.recv_waiting -= 1;
            }
            if woke == Wake::TimedOut {
                // one last look, as crossbeam does
                let mut c = self.sh.st.lock().unwrap();
                if let Some(m) = c.q.pop_front() {
                    let len = c.q.len();
                    drop(c);
                    rt::emit(SeamEvent::ChanRecv { chan: self.sh.id, tid: rt::current_tid(), len_after: len });
                    rt::wake_all(Obj::ChanSend(self.sh.id));
                    rt::wake_all(Obj::Select);
                    return Ok(m);
                }
                return Err(RecvTimeoutError::Timeout);
            }
        }
    }

    pub fn recv(&self) -> Result<T, RecvError> {
        self.recv_deadline(None).map_err(|_| RecvError)
    }

    pub fn recv_deadline_at(&self, deadline: crate::time::Instant) -> Result<T, RecvTimeoutError> {
        self.recv_deadline(Some(deadline.as_nanos()))
    }

    pub fn recv_timeout(&self, d: Duration) -> Result<T, RecvTimeoutError> {
        let dl = rt::now_ns().saturating_add(d.as_nanos().min(u64::MAX as u128) as u64);
        self.recv_deadline(Some(dl))
    }

    pub fn try_recv(&self) -> Result<T, TryRecvError> {
        rt::point(Op::ChanRecv);
        let mut c = self.sh.st.lock().unwrap();
        if let Some(m) = c.q.pop_front() {
            let len = c.q.len();
            drop(c);
            rt::emit(SeamEvent::ChanRecv { chan: self.sh.id, tid: rt::current_tid(), len_after: len });
            rt::wake_all(Obj::ChanSend(self.sh.id));
                    rt::wake_all(Obj::Select);
            return Ok(m);
        }
        if c.senders == 0 {
            Err(TryRecvError::Disconnected)
        } else {
            Err(TryRecvError::Empty)
        }
    }

    pub fn len(&self) -> usize {
        rt::point(Op::ChanLen);
        self.sh.st.lock().unwrap().q.len()
    }
    pub fn is_empty(&self) -> bool {
        self.len() == 0
    }
    pub fn is_full(&self) -> bool {
        rt::point(Op::ChanLen);
        let c = self.sh.st.lock().unwrap();
        c.full()
    }
    pub fn capacity(&self) -> Option<usize> {
        self.sh.st.lock().unwrap().cap
    }
    pub fn iter(&self) -> Iter<'_, T> {
        Iter { r: self }
    }
    pub fn try_iter(&self) -> TryIter<'_, T> {
        TryIter { r: self }
    }
    pub fn same_channel(&self, other: &Receiver<T>) -> bool {
        Arc::ptr_eq(&self.sh, &other.sh)
    }
}

pub struct Iter<'a, T> {
    r: &'a Receiver<T>,
}
impl<T> Iterator for Iter<'_, T> {
    type Item = T;
    fn next(&mut self) -> Option<T> {
        self.r.recv().ok()
    }
}
pub struct TryIter<'a, T> {
    r: &'a Receiver<T>,
}
impl<T> Iterator for TryIter<'_, T> {
    type Item = T;
    fn next(&mut self) -> Option<T> {
        self.r.try_recv().ok()
    }
}

impl<T> IntoIterator for Receiver<T> {
    type Item = T;
    type IntoIter = IntoIter<T>;
    fn into_iter(self) -> IntoIter<T> {
        IntoIter { r: self }
    }
}

impl<'a, T> IntoIterator for &'a Receiver<T> {
    type Item = T;
    type IntoIter = Iter<'a, T>;
    fn into_iter(self) -> Iter<'a, T> {
        self.iter()
    }
}

/// blocking iterator that owns the receiver
pub struct IntoIter<T> {
    r: Receiver<T>,
}

impl<T> Iterator for IntoIter<T> {
    type Item = T;
    fn next(&mut self) -> Option<T> {
        self.r.recv().ok()
    }
}

impl<T> Clone for Receiver<T> {
    fn clone(&self) -> Self {
        self.sh.st.lock().unwrap().receivers += 1;
        Receiver { sh: self.sh.clone() }
    }
}

impl<T> Drop for Receiver<T> {
    fn drop(&mut self) {
        let last = {
            let mut c = self.sh.st.lock().unwrap();
            c.receivers -= 1;
            c.receivers == 0
        };
        if last {
            // crossbeam discards queued messages when the last receiver goes away
            let drained: Vec<T> = {
                let mut c = self.sh.st.lock().unwrap();
                c.q.drain(..).collect()
            };
            drop(drained);
            rt::wake_all(Obj::ChanSend(self.sh.id));
                    rt::wake_all(Obj::Select);
        }
    }
}

impl<T> fmt::Debug for Sender<T> {
    fn fmt(&self, f: &mut fmt::Formatter<'_>) -> fmt::Result {
        f.pad("Sender { .. }")
    }
}
impl<T> fmt::Debug for Receiver<T> {
    fn fmt(&self, f: &mut fmt::Formatter<'_>) -> fmt::Result {
        f.pad("Receiver { .. }")
    }
}

// ---- error types, mirroring crossbeam-channel's impls ----

#[derive(PartialEq, Eq, Clone, Copy)]
pub struct SendError<T>(pub T);

#[derive(PartialEq, Eq, Clone, Copy)]
pub enum TrySendError<T> {
    Full(T),
    Disconnected(T),
}

#[derive(PartialEq, Eq, Clone, Copy)]
pub enum SendTimeoutError<T> {
    Timeout(T),
    Disconnected(T),
}

#[derive(PartialEq, Eq, Clone, Copy, Debug)]
pub struct RecvError;

#[derive(PartialEq, Eq, Clone, Copy, Debug)]
pub enum TryRecvError {
    Empty,
    Disconnected,
}

#[derive(PartialEq, Eq, Clone, Copy, Debug)]
pub enum RecvTimeoutError {
    Timeout,
    Disconnected,
}

impl<T> fmt::Debug for SendError<T> {
    fn fmt(&self, f: &mut fmt::Formatter<'_>) -> fmt::Result {
        "SendError(..)".fmt(f)
    }
}
impl<T> fmt::Display for SendError<T> {
    fn fmt(&self, f: &mut fmt::Formatter<'_>) -> fmt::Result {
        "sending on a disconnected channel".fmt(f)
    }
}
impl<T: Send> std::error::Error for SendError<T> {}
impl<T> SendError<T> {
    pub fn into_inner(self) -> T {
        self.0
    }
}

impl<T> fmt::Debug for TrySendError<T> {
    fn fmt(&self, f: &mut fmt::Formatter<'_>) -> fmt::Result {
        match *self {
            TrySendError::Full(..) => "Full(..)".fmt(f),
            TrySendError::Disconnected(..) => "Disconnected(..)".fmt(f),
        }
    }
}
impl<T> fmt::Display for TrySendError<T> {
    fn fmt(&self, f: &mut fmt::Formatter<'_>) -> fmt::Result {
        match *self {
            TrySendError::Full(..) => "sending on a full channel".fmt(f),
            TrySendError::Disconnected(..) => "sending on a disconnected channel".fmt(f),
        }
    }
}
impl<T: Send> std::error::Error for TrySendError<T> {}
impl<T> From<SendError<T>> for TrySendError<T> {
    fn from(err: SendError<T>) -> Self {
        TrySendError::Disconnected(err.0)
    }
}
impl<T> SendTimeoutError<T> {
    pub fn into_inner(self) -> T {
        match self {
            SendTimeoutError::Timeout(v) | SendTimeoutError::Disconnected(v) => v,
        }
    }
    pub fn is_timeout(&self) -> bool {
        matches!(self, SendTimeoutError::Timeout(_))
    }
    pub fn is_disconnected(&self) -> bool {
        matches!(self, SendTimeoutError::Disconnected(_))
    }
}

impl<T> From<SendError<T>> for SendTimeoutError<T> {
    fn from(e: SendError<T>) -> Self {
        SendTimeoutError::Disconnected(e.0)
    }
}

impl<T> TrySendError<T> {
    pub fn into_inner(self) -> T {
        match self {
            TrySendError::Full(v) | TrySendError::Disconnected(v) => v,
        }
    }
    pub fn is_full(&self) -> bool {
        matches!(self, TrySendError::Full(_))
    }
    pub fn is_disconnected(&self) -> bool {
        matches!(self, TrySendError::Disconnected(_))
    }
}

impl<T> fmt::Debug for SendTimeoutError<T> {
    fn fmt(&self, f: &mut fmt::Formatter<'_>) -> fmt::Result {
        "SendTimeoutError(..)".fmt(f)
    }
}
impl<T> fmt::Display for SendTimeoutError<T> {
    fn fmt(&self, f: &mut fmt::Formatter<'_>) -> fmt::Result {
        match *self {
            SendTimeoutError::Timeout(..) => "timed out waiting on send operation".fmt(f),
            SendTimeoutError::Disconnected(..) => "sending on a disconnected channel".fmt(f),
        }
    }
}
impl<T: Send> std::error::Error for SendTimeoutError<T> {}

impl fmt::Display for RecvError {
    fn fmt(&self, f: &mut fmt::Formatter<'_>) -> fmt::Result {
        "receiving on an empty and disconnected channel".fmt(f)
    }
}
impl std::error::Error for RecvError {}

impl fmt::Display for TryRecvError {
    fn fmt(&self, f: &mut fmt::Formatter<'_>) -> fmt::Result {
        match *self {
            TryRecvError::Empty => "receiving on an empty channel".fmt(f),
            TryRecvError::Disconnected => "receiving on an empty and disconnected channel".fmt(f),
        }
    }
}
impl std::error::Error for TryRecvError {}
impl TryRecvError {
    pub fn is_empty(&self) -> bool {
        matches!(self, TryRecvError::Empty)
    }
    pub fn is_disconnected(&self) -> bool {
        matches!(self, TryRecvError::Disconnected)
    }
}

impl fmt::Display for RecvTimeoutError {
    fn fmt(&self, f: &mut fmt::Formatter<'_>) -> fmt::Result {
        match *self {
            RecvTimeoutError::Timeout => "timed out waiting on receive operation".fmt(f),
            RecvTimeoutError::Disconnected => "channel is empty and disconnected".fmt(f),
        }
    }
}
impl std::error::Error for RecvTimeoutError {}
impl RecvTimeoutError {
    pub fn is_timeout(&self) -> bool {
        matches!(self, RecvTimeoutError::Timeout)
    }
    pub fn is_disconnected(&self) -> bool {
        matches!(self, RecvTimeoutError::Disconnected)
    }
}


// ---------------------------------------------------------------------------------------------
// crossbeam's Select (dynamic selection over several channel operations)

/// what a Select needs to know about a registered channel end
pub trait SelectHandle {
    /// the operation could complete now (or the channel is disconnected)
    fn sel_ready(&self) -> bool;
}

impl<T> SelectHandle for Receiver<T> {
    fn sel_ready(&self) -> bool {
        let c = self.sh.st.lock().unwrap();
        !c.q.is_empty() || c.senders == 0
    }
}

impl<T> SelectHandle for Sender<T> {
    fn sel_ready(&self) -> bool {
        let c = self.sh.st.lock().unwrap();
        !c.full() || c.receivers == 0
    }
}

pub struct Select<'a> {
    ops: Vec<&'a dyn SelectHandle>,
}

#[derive(Debug, PartialEq, Eq, Clone, Copy)]
pub struct TrySelectError;
#[derive(Debug, PartialEq, Eq, Clone, Copy)]
pub struct SelectTimeoutError;
#[derive(Debug, PartialEq, Eq, Clone, Copy)]
pub struct TryReadyError;
#[derive(Debug, PartialEq, Eq, Clone, Copy)]
pub struct ReadyTimeoutError;

pub struct SelectedOperation<'a> {
    index: usize,
    _m: std::marker::PhantomData<&'a ()>,
}

impl<'a> Select<'a> {
    pub fn new() -> Select<'a> {
        Select { ops: vec![] }
    }
    pub fn recv<T>(&mut self, r: &'a Receiver<T>) -> usize {
        self.ops.push(r);
        self.ops.len() - 1
    }
    pub fn send<T>(&mut self, s: &'a Sender<T>) -> usize {
        self.ops.push(s);
        self.ops.len() - 1
    }
    pub fn remove(&mut self, index: usize) {
        // keep indices stable: a removed operation is never ready
        struct Never;
        impl SelectHandle for Never {
            fn sel_ready(&self) -> bool {
                false
            }
        }
        static NEVER: Never = Never;
        self.ops[index] = &NEVER;
    }

    /// among the ready operations one is picked "at random": here from the scheduler's step count
    fn pick(&self) -> Option<usize> {
        let ready: Vec<usize> = (0..self.ops.len()).filter(|&i| self.ops[i].sel_ready()).collect();
        if ready.is_empty() {
            None
        } else {
            Some(ready[(rt::steps() as usize) % ready.len()])
        }
    }

    fn wait(&mut self, deadline_ns: Option<u64>) -> Option<usize> {
        rt::point(Op::ChanRecv);
        loop {
            if let Some(i) = self.pick() {
                return Some(i);
            }
            if !rt::in_sim() {
                panic!("simrt channel: blocking select outside a simulation");
            }
            if self.ops.is_empty() && deadline_ns.is_none() {
                // crossbeam blocks for ever
                rt::block(Obj::Select, None);
                continue;
            }
            if rt::block(Obj::Select, deadline_ns) == Wake::TimedOut {
                return self.pick();
            }
        }
    }

    pub fn try_select(&mut self) -> Result<SelectedOperation<'a>, TrySelectError> {
        rt::point(Op::ChanRecv);
        self.pick().map(|index| SelectedOperation { index, _m: std::marker::PhantomData }).ok_or(TrySelectError)
    }
    pub fn select(&mut self) -> SelectedOperation<'a> {
        let index = self.wait(None).expect("select without deadline returned nothing");
        SelectedOperation { index, _m: std::marker::PhantomData }
    }
    pub fn select_timeout(&mut self, d: Duration) -> Result<SelectedOperation<'a>, SelectTimeoutError> {
        let dl = rt::now_ns().saturating_add(d.as_nanos().min(u64::MAX as u128) as u64);
        self.wait(Some(dl)).map(|index| SelectedOperation { index, _m: std::marker::PhantomData }).ok_or(SelectTimeoutError)
    }
    pub fn try_ready(&mut self) -> Result<usize, TryReadyError> {
        rt::point(Op::ChanRecv);
        self.pick().ok_or(TryReadyError)
    }
    pub fn ready(&mut self) -> usize {
        self.wait(None).expect("ready without deadline returned nothing")
    }
    pub fn ready_timeout(&mut self, d: Duration) -> Result<usize, ReadyTimeoutError> {
        let dl = rt::now_ns().saturating_add(d.as_nanos().min(u64::MAX as u128) as u64);
        self.wait(Some(dl)).ok_or(ReadyTimeoutError)
    }
}

impl<'a> Default for Select<'a> {
    fn default() -> Self {
        Select::new()
    }
}

impl<'a> SelectedOperation<'a> {
    pub fn index(&self) -> usize {
        self.index
    }
    /// completes the selected receive (should another consumer have taken the item meanwhile,
    /// this waits for the next one)
    pub fn recv<T>(self, r: &Receiver<T>) -> Result<T, RecvError> {
        r.recv()
    }
    pub fn send<T>(self, s: &Sender<T>, msg: T) -> Result<(), SendError<T>> {
        s.send(msg)
    }
}
