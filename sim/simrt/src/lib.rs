//! simrt: a small deterministic runtime.  Real OS threads, parked and released one at a time at
//! intercepted synchronisation points; the choice of who runs, every timer and every injected
//! fault come from one seed.  See /verif/DESIGN.md §3 and appendix A.

pub mod channel;
pub mod rt;
pub mod sync;
pub mod thread;
pub mod time;

pub use rt::{
    block, blocked_snapshot, current_tid, in_sim, knob_cpus, now_ns, point, run, settle, steps,
    thread_is_finished, wait_others, BlockedInfo, Buggify, Config, End, Obj, Op, Outcome, SeamEvent, Strategy,
    Tid, Wake,
};

/// Pin the calling OS thread (and every thread it spawns afterwards) to one core.
pub fn pin_to_core(core: usize) {
    unsafe {
        let mut set: libc::cpu_set_t = std::mem::zeroed();
        libc::CPU_ZERO(&mut set);
        libc::CPU_SET(core, &mut set);
        libc::sched_setaffinity(0, std::mem::size_of::<libc::cpu_set_t>(), &set);
    }
}
