//! Core of the deterministic runtime: one baton, a thread table, a virtual clock, a seeded
//! scheduler with a recorded decision list.  See DESIGN.md appendix A for the contract.

use std::cell::RefCell;
use std::collections::BinaryHeap;
use std::sync::atomic::{AtomicBool, Ordering};
use std::sync::{Arc, Condvar as StdCondvar, Mutex as StdMutex};

pub type Tid = usize;

/// What a simulated thread can be blocked on.
#[derive(Clone, Copy, PartialEq, Eq, Debug)]
pub enum Obj {
    Mutex(usize),
    Condvar(usize),
    ChanSend(u32),
    ChanRecv(u32),
    Thread(Tid),
    Sleep,
    Settle,
    /// harness-only: waiting for every other thread to finish
    AllDone,
    /// waiting in a channel Select for any registered channel to change
    Select,
}

#[derive(Clone, Copy, PartialEq, Eq, Debug)]
pub enum Wake {
    Notified,
    TimedOut,
}

#[derive(Clone, Copy, PartialEq, Eq, Debug)]
enum Status {
    Runnable,
    Blocked(Obj),
    Settling,
    Finished,
}

/// Kinds of visible operations (used for the schedule hash only).
#[derive(Clone, Copy, Debug, PartialEq, Eq)]
#[repr(u8)]
pub enum Op {
    MutexLock = 1,
    MutexUnlock,
    CondWait,
    CondNotify,
    Atomic,
    ChanSend,
    ChanRecv,
    ChanLen,
    Spawn,
    Join,
    Sleep,
    Yield,
    Exit,
    Settle,
    User,
}

#[derive(Clone, Debug)]
pub enum SeamEvent {
    Spawn { tid: Tid, parent: Tid, name: Option<String> },
    SpawnFailed { parent: Tid, name: Option<String> },
    Exit { tid: Tid, panicked: bool },
    ChanCreate { chan: u32, cap: Option<usize>, tid: Tid },
    ChanSend { chan: u32, tid: Tid, len_after: usize },
    ChanRecv { chan: u32, tid: Tid, len_after: usize },
    ChanFull { chan: u32, tid: Tid },
    Block { tid: Tid, obj: Obj },
    TimerFired { tid: Tid, obj: Obj, deadline_ns: u64 },
    Fault { kind: &'static str, tid: Tid },
}

pub type EventSink = Arc<dyn Fn(&SeamEvent, u64) + Send + Sync>;

#[derive(Clone, Debug, PartialEq)]
pub enum Strategy {
    Uniform,
    /// keep running the current thread with probability p/1000
    Sticky(u32),
    /// PCT with d priority change points over a horizon of steps
    Pct { d: u32, horizon: u64 },
}

#[derive(Clone, Debug, Default)]
pub struct Buggify {
    /// probability (per mille) that a condvar wait returns spuriously at once
    pub spurious_wake_pm: u32,
    /// probability (per mille) that compare_exchange_weak fails spuriously
    pub weak_cas_pm: u32,
    /// probability (per mille) that a spawn of a thread whose name ends with `spawn_fail_suffix` fails
    pub spawn_fail_pm: u32,
    pub spawn_fail_suffix: Option<String>,
}

#[derive(Clone)]
pub struct Config {
    pub seed: u64,
    pub strategy: Strategy,
    pub step_limit: u64,
    pub cpus: usize,
    pub buggify: Buggify,
    /// forced decision list (replay).  `strict`: a decision naming a non-candidate is a divergence.
    pub forced: Option<Vec<u16>>,
    pub strict: bool,
    pub sink: Option<EventSink>,
}

impl Config {
    pub fn new(seed: u64) -> Config {
        Config {
            seed,
            strategy: Strategy::Uniform,
            step_limit: 50_000,
            cpus: 4,
            buggify: Buggify::default(),
            forced: None,
            strict: false,
            sink: None,
        }
    }
}

#[derive(Clone, Debug)]
pub struct BlockedInfo {
    pub tid: Tid,
    pub name: Option<String>,
    pub obj: Obj,
    /// for a thread blocked on a mutex: the simulated thread that held it when it blocked
    pub holder: Option<Tid>,
}

#[derive(Clone, Debug, PartialEq)]
pub enum End {
    Complete,
    Deadlock,
    /// thread 0 finished but some other (non-joined) threads can never run again
    Leaked,
    StepLimit,
    ReplayDiverged,
}

#[derive(Clone, Debug)]
pub struct Outcome {
    pub end: End,
    pub steps: u64,
    pub clock_ns: u64,
    pub decisions: Vec<u16>,
    pub blocked: Vec<BlockedInfo>,
    pub threads_total: usize,
    pub threads_panicked: usize,
    pub schedule_hash: u64,
    pub context_switches: u64,
    pub timers_fired: u64,
    pub faults: Vec<(&'static str, u64)>,
}

pub(crate) struct Parker {
    flag: AtomicBool,
    thread: StdMutex<Option<std::thread::Thread>>,
}

impl Parker {
    pub(crate) fn new() -> Arc<Parker> {
        Arc::new(Parker { flag: AtomicBool::new(false), thread: StdMutex::new(None) })
    }
    pub(crate) fn set_thread(&self, t: std::thread::Thread) {
        *self.thread.lock().unwrap() = Some(t);
    }
    fn signal(&self) {
        self.flag.store(true, Ordering::SeqCst);
        if let Some(t) = self.thread.lock().unwrap().as_ref() {
            t.unpark();
        }
    }
    pub(crate) fn wait(&self) {
        while !self.flag.swap(false, Ordering::SeqCst) {
            std::thread::park();
        }
    }
}

struct ThreadRec {
    status: Status,
    wake: Wake,
    timer_seq: u64,
    parker: Arc<Parker>,
    name: Option<String>,
    prio: u64,
    panicked: bool,
    holder: Option<Tid>,
}

pub(crate) struct Rng(u64);
impl Rng {
    fn next(&mut self) -> u64 {
        self.0 = self.0.wrapping_add(0x9E3779B97F4A7C15);
        let mut z = self.0;
        z = (z ^ (z >> 30)).wrapping_mul(0xBF58476D1CE4E5B9);
        z = (z ^ (z >> 27)).wrapping_mul(0x94D049BB133111EB);
        z ^ (z >> 31)
    }
    fn below(&mut self, n: u64) -> u64 {
        if n <= 1 {
            0
        } else {
            self.next() % n
        }
    }
}

struct State {
    threads: Vec<ThreadRec>,
    current: Tid,
    sched_rng: Rng,
    fault_rng: Rng,
    clock_ns: u64,
    timers: BinaryHeap<std::cmp::Reverse<(u64, u64, Tid)>>,
    timer_seq: u64,
    steps: u64,
    step_limit: u64,
    decisions: Vec<u16>,
    forced: Option<Vec<u16>>,
    forced_pos: usize,
    strict: bool,
    strategy: Strategy,
    pct_points: Vec<u64>,
    buggify: Buggify,
    sched_hash: u64,
    switches: u64,
    timers_fired: u64,
    next_chan: u32,
    faults: Vec<(&'static str, u64)>,
    ended: bool,
}

pub(crate) struct Sim {
    st: StdMutex<State>,
    done: StdMutex<Option<(End, Vec<BlockedInfo>)>>,
    done_cv: StdCondvar,
    sink: Option<EventSink>,
    cpus: usize,
}

#[derive(Clone)]
pub(crate) struct Ctx {
    pub(crate) sim: Arc<Sim>,
    pub(crate) tid: Tid,
    pub(crate) parker: Arc<Parker>,
}

thread_local! {
    static CTX: RefCell<Option<Ctx>> = const { RefCell::new(None) };
}

pub(crate) fn ctx() -> Option<Ctx> {
    CTX.with(|c| c.borrow().clone())
}

pub fn in_sim() -> bool {
    CTX.with(|c| c.borrow().is_some())
}

fn park_forever() -> ! {
    loop {
        std::thread::park();
    }
}

impl Sim {
    fn emit(&self, st: &State, ev: SeamEvent) {
        if let Some(s) = &self.sink {
            s(&ev, st.clock_ns);
        }
    }

    fn end_run(&self, st: &mut State, end: End) {
        if st.ended {
            return;
        }
        st.ended = true;
        let blocked = st
            .threads
            .iter()
            .enumerate()
            .filter_map(|(i, t)| match t.status {
                Status::Blocked(o) => Some(BlockedInfo { tid: i, name: t.name.clone(), obj: o, holder: t.holder }),
                Status::Settling => Some(BlockedInfo { tid: i, name: t.name.clone(), obj: Obj::Settle, holder: None }),
                _ => None,
            })
            .collect();
        *self.done.lock().unwrap() = Some((end, blocked));
        self.done_cv.notify_all();
    }

    /// draw a decision among `n` candidates; `cands` are tids.  Returns chosen tid.
    fn choose(&self, st: &mut State, cands: &[Tid], me: Option<Tid>) -> Option<Tid> {
        debug_assert!(!cands.is_empty());
        if cands.len() == 1 {
            return Some(cands[0]);
        }
        let chosen = if let Some(f) = &st.forced {
            if st.forced_pos < f.len() {
                let want = f[st.forced_pos] as Tid;
                st.forced_pos += 1;
                if cands.contains(&want) {
                    want
                } else if st.strict {
                    return None;
                } else {
                    default_choice(cands, me)
                }
            } else if st.strict {
                return None;
            } else {
                default_choice(cands, me)
            }
        } else {
            match st.strategy.clone() {
                Strategy::Uniform => cands[st.sched_rng.below(cands.len() as u64) as usize],
                Strategy::Sticky(p) => {
                    let stay = me.map(|m| cands.contains(&m)).unwrap_or(false);
                    if stay && st.sched_rng.below(1000) < p as u64 {
                        me.unwrap()
                    } else {
                        cands[st.sched_rng.below(cands.len() as u64) as usize]
                    }
                }
                Strategy::Pct { .. } => {
                    let mut best = cands[0];
                    for &c in cands {
                        if st.threads[c].prio > st.threads[best].prio {
                            best = c;
                        }
                    }
                    best
                }
            }
        };
        st.decisions.push(chosen as u16);
        Some(chosen)
    }

    fn fault(&self, st: &mut State, pm: u32, kind: &'static str, tid: Tid) -> bool {
        if pm == 0 {
            return false;
        }
        // fault draws are decisions too: recorded / forced in the same list (0 or 1, offset so
        // they cannot be confused with a tid in strict mode)
        let fire = if let Some(f) = &st.forced {
            if st.forced_pos < f.len() {
                let v = f[st.forced_pos];
                st.forced_pos += 1;
                v == 0xFFFF
            } else {
                false
            }
        } else {
            st.fault_rng.below(1000) < pm as u64
        };
        st.decisions.push(if fire { 0xFFFF } else { 0xFFFE });
        if fire {
            if let Some(e) = st.faults.iter_mut().find(|e| e.0 == kind) {
                e.1 += 1;
            } else {
                st.faults.push((kind, 1));
            }
            self.emit(st, SeamEvent::Fault { kind, tid });
        }
        fire
    }

    fn runnable(&self, st: &State) -> Vec<Tid> {
        let mut v = Vec::with_capacity(st.threads.len());
        for (i, t) in st.threads.iter().enumerate() {
            if t.status == Status::Runnable {
                v.push(i);
            }
        }
        v
    }

    /// Pick the next thread to run when the caller `me` may or may not be runnable.
    /// Advances virtual time when nothing is runnable.  Returns None when the run has ended
    /// (deadlock / complete / divergence), in which case the caller must not continue.
    fn pick_next(&self, st: &mut State, me: Option<Tid>) -> Option<Tid> {
        loop {
            let cands = self.runnable(st);
            if !cands.is_empty() {
                return match self.choose(st, &cands, me) {
                    Some(t) => Some(t),
                    None => {
                        self.end_run(st, End::ReplayDiverged);
                        None
                    }
                };
            }
            // a settling thread runs only when nobody else can
            if let Some(i) = st.threads.iter().position(|t| t.status == Status::Settling) {
                st.threads[i].status = Status::Runnable;
                st.threads[i].wake = Wake::Notified;
                continue;
            }
            // advance virtual time
            let mut fired = false;
            while let Some(std::cmp::Reverse((dl, seq, tid))) = st.timers.pop() {
                let t = &st.threads[tid];
                if let Status::Blocked(obj) = t.status {
                    if t.timer_seq == seq {
                        if dl > st.clock_ns {
                            st.clock_ns = dl;
                        }
                        st.threads[tid].status = Status::Runnable;
                        st.threads[tid].wake = Wake::TimedOut;
                        st.timers_fired += 1;
                        self.emit(st, SeamEvent::TimerFired { tid, obj, deadline_ns: dl });
                        fired = true;
                        break;
                    }
                }
            }
            if fired {
                continue;
            }
            // nothing runnable, no timers: a thread waiting for all others learns they are stuck
            if let Some(i) = st.threads.iter().position(|t| t.status == Status::Blocked(Obj::AllDone)) {
                st.threads[i].status = Status::Runnable;
                st.threads[i].wake = Wake::TimedOut;
                continue;
            }
            if st.threads.iter().all(|t| t.status == Status::Finished) {
                self.end_run(st, End::Complete);
            } else if st.threads[0].status == Status::Finished {
                self.end_run(st, End::Leaked);
            } else {
                self.end_run(st, End::Deadlock);
            }
            return None;
        }
    }

    fn note_step(&self, st: &mut State, me: Tid, op: Op) -> bool {
        st.steps += 1;
        st.sched_hash = (st.sched_hash ^ ((me as u64) << 8 | op as u64)).wrapping_mul(0x100000001b3);
        if st.steps > st.step_limit {
            self.end_run(st, End::StepLimit);
            return false;
        }
        if let Strategy::Pct { d, .. } = st.strategy {
            if let Some(k) = st.pct_points.iter().position(|&p| p == st.steps) {
                st.threads[me].prio = (d as u64).saturating_sub(k as u64);
            }
        }
        true
    }
}

fn default_choice(cands: &[Tid], me: Option<Tid>) -> Tid {
    if let Some(m) = me {
        if cands.contains(&m) {
            return m;
        }
    }
    cands[0]
}

/// Scheduling point before a visible operation.
pub fn point(op: Op) {
    let Some(c) = ctx() else { return };
    let mut st = c.sim.st.lock().unwrap();
    if st.ended {
        drop(st);
        park_forever();
    }
    if !c.sim.note_step(&mut st, c.tid, op) {
        drop(st);
        park_forever();
    }
    if op == Op::Yield {
        if let Strategy::Pct { .. } = st.strategy {
            st.threads[c.tid].prio = 0;
        }
    }
    let next = match c.sim.pick_next(&mut st, Some(c.tid)) {
        Some(n) => n,
        None => {
            drop(st);
            park_forever();
        }
    };
    if next == c.tid {
        return;
    }
    st.switches += 1;
    st.current = next;
    let p = st.threads[next].parker.clone();
    drop(st);
    p.signal();
    c.parker.wait();
}

/// Block the calling thread on `obj` until woken or until the optional deadline (virtual ns).
pub fn block(obj: Obj, deadline_ns: Option<u64>) -> Wake {
    let c = ctx().expect("simrt::block outside a simulation");
    let mut st = c.sim.st.lock().unwrap();
    if st.ended {
        drop(st);
        park_forever();
    }
    st.threads[c.tid].status = if obj == Obj::Settle { Status::Settling } else { Status::Blocked(obj) };
    st.threads[c.tid].wake = Wake::Notified;
    if !matches!(obj, Obj::Mutex(_)) {
        st.threads[c.tid].holder = None;
    }
    if let Some(dl) = deadline_ns {
        st.timer_seq += 1;
        let seq = st.timer_seq;
        st.threads[c.tid].timer_seq = seq;
        st.timers.push(std::cmp::Reverse((dl, seq, c.tid)));
    } else {
        st.threads[c.tid].timer_seq = 0;
    }
    if obj != Obj::Settle {
        c.sim.emit(&st, SeamEvent::Block { tid: c.tid, obj });
    }
    let next = match c.sim.pick_next(&mut st, None) {
        Some(n) => n,
        None => {
            drop(st);
            park_forever();
        }
    };
    if next != c.tid {
        st.switches += 1;
        st.current = next;
        let p = st.threads[next].parker.clone();
        drop(st);
        p.signal();
        c.parker.wait();
        let st = c.sim.st.lock().unwrap();
        return st.threads[c.tid].wake;
    }
    st.threads[c.tid].wake
}

/// Record who holds the mutex the caller is about to block on (diagnostics only).
pub fn note_holder(holder: Option<Tid>) {
    let Some(c) = ctx() else { return };
    let mut st = c.sim.st.lock().unwrap();
    st.threads[c.tid].holder = holder;
}

/// Mark every thread blocked on `obj` runnable (they re-check their condition when scheduled).
pub fn wake_all(obj: Obj) {
    let Some(c) = ctx() else { return };
    let mut st = c.sim.st.lock().unwrap();
    for t in st.threads.iter_mut() {
        if t.status == Status::Blocked(obj) {
            t.status = Status::Runnable;
            t.wake = Wake::Notified;
        }
    }
}

/// Wake one thread blocked on `obj`, chosen by the scheduler.
pub fn wake_one(obj: Obj) {
    let Some(c) = ctx() else { return };
    let mut st = c.sim.st.lock().unwrap();
    let waiters: Vec<Tid> = st
        .threads
        .iter()
        .enumerate()
        .filter(|(_, t)| t.status == Status::Blocked(obj))
        .map(|(i, _)| i)
        .collect();
    if waiters.is_empty() {
        return;
    }
    let w = if waiters.len() == 1 {
        waiters[0]
    } else if st.forced.is_some() {
        match c.sim.choose(&mut st, &waiters, None) {
            Some(w) => w,
            None => waiters[0],
        }
    } else {
        let i = st.sched_rng.below(waiters.len() as u64) as usize;
        st.decisions.push(waiters[i] as u16);
        waiters[i]
    };
    st.threads[w].status = Status::Runnable;
    st.threads[w].wake = Wake::Notified;
}

pub(crate) fn fault(pm_of: impl Fn(&Buggify) -> u32, kind: &'static str) -> bool {
    let Some(c) = ctx() else { return false };
    let mut st = c.sim.st.lock().unwrap();
    let pm = pm_of(&st.buggify);
    c.sim.fault(&mut st, pm, kind, c.tid)
}

pub(crate) fn spawn_should_fail(name: &Option<String>) -> bool {
    let Some(c) = ctx() else { return false };
    let mut st = c.sim.st.lock().unwrap();
    // a fallible, named spawn made by the code under test (thread::Builder::spawn returns an
    // io::Result the caller has to handle); never the pool's own workers or the harness's threads.
    // The configured suffix is the name such threads have today; a renamed thread still qualifies.
    let applies = match (&st.buggify.spawn_fail_suffix, name) {
        (Some(sfx), Some(n)) => n.ends_with(sfx.as_str()) || (!n.contains("pool") && !n.starts_with("client-") && !n.starts_with("sim-")),
        _ => false,
    };
    if !applies {
        return false;
    }
    let pm = st.buggify.spawn_fail_pm;
    let fire = c.sim.fault(&mut st, pm, "spawn_eagain", c.tid);
    if fire {
        c.sim.emit(&st, SeamEvent::SpawnFailed { parent: c.tid, name: name.clone() });
    }
    fire
}

pub(crate) fn emit(ev: SeamEvent) {
    let Some(c) = ctx() else { return };
    let st = c.sim.st.lock().unwrap();
    c.sim.emit(&st, ev);
}

pub(crate) fn new_chan_id() -> u32 {
    let Some(c) = ctx() else { return 0 };
    let mut st = c.sim.st.lock().unwrap();
    st.next_chan += 1;
    st.next_chan
}

pub fn now_ns() -> u64 {
    let Some(c) = ctx() else { return 0 };
    let st = c.sim.st.lock().unwrap();
    st.clock_ns
}

pub fn current_tid() -> Tid {
    ctx().map(|c| c.tid).unwrap_or(usize::MAX)
}

pub fn steps() -> u64 {
    let Some(c) = ctx() else { return 0 };
    let st = c.sim.st.lock().unwrap();
    st.steps
}

pub fn knob_cpus() -> usize {
    ctx().map(|c| c.sim.cpus).unwrap_or(4)
}

/// Harness-only: block until no other thread is runnable at the current virtual time.
pub fn settle() {
    point(Op::Settle);
    block(Obj::Settle, None);
}

/// Harness-only: block until every other thread has finished (true) or none of them can ever
/// run again (false).  Virtual time advances while waiting.
pub fn wait_others() -> bool {
    let Some(c) = ctx() else { return true };
    point(Op::Join);
    loop {
        {
            let st = c.sim.st.lock().unwrap();
            if st.threads.iter().enumerate().all(|(i, t)| i == c.tid || t.status == Status::Finished) {
                return true;
            }
        }
        if block(Obj::AllDone, None) == Wake::TimedOut {
            return false;
        }
    }
}

/// Harness-only: what every blocked thread is blocked on right now.
pub fn blocked_snapshot() -> Vec<BlockedInfo> {
    let Some(c) = ctx() else { return vec![] };
    let st = c.sim.st.lock().unwrap();
    st.threads
        .iter()
        .enumerate()
        .filter_map(|(i, t)| match t.status {
            Status::Blocked(o) => Some(BlockedInfo { tid: i, name: t.name.clone(), obj: o, holder: t.holder }),
            _ => None,
        })
        .collect()
}

pub fn thread_is_finished(tid: Tid) -> bool {
    let Some(c) = ctx() else { return true };
    let st = c.sim.st.lock().unwrap();
    st.threads.get(tid).map(|t| t.status == Status::Finished).unwrap_or(true)
}

/// Register a freshly created OS thread as a simulated thread (called by the parent, which holds
/// the baton).  Returns its tid.
pub(crate) fn register_thread(c: &Ctx, parker: Arc<Parker>, name: Option<String>) -> Tid {
    let mut st = c.sim.st.lock().unwrap();
    let prio = match st.strategy {
        Strategy::Pct { d, .. } => (d as u64 + 1) + (st.sched_rng.next() >> 8),
        _ => 0,
    };
    st.threads.push(ThreadRec {
        status: Status::Runnable,
        wake: Wake::Notified,
        timer_seq: 0,
        parker,
        name: name.clone(),
        prio,
        panicked: false,
        holder: None,
    });
    let tid = st.threads.len() - 1;
    c.sim.emit(&st, SeamEvent::Spawn { tid, parent: c.tid, name });
    tid
}

pub(crate) fn enter_thread(c: Ctx) {
    let p = c.parker.clone();
    CTX.with(|x| *x.borrow_mut() = Some(c));
    p.wait();
}

/// Called by a simulated thread when its body has returned (or panicked).
pub(crate) fn exit_thread(panicked: bool) {
    let Some(c) = ctx() else { return };
    let mut st = c.sim.st.lock().unwrap();
    if st.ended {
        return;
    }
    let _ = c.sim.note_step(&mut st, c.tid, Op::Exit);
    st.threads[c.tid].status = Status::Finished;
    st.threads[c.tid].panicked = panicked;
    c.sim.emit(&st, SeamEvent::Exit { tid: c.tid, panicked });
    let me = c.tid;
    for t in st.threads.iter_mut() {
        if t.status == Status::Blocked(Obj::Thread(me)) || t.status == Status::Blocked(Obj::AllDone) {
            t.status = Status::Runnable;
            t.wake = Wake::Notified;
        }
    }
    if st.ended {
        return;
    }
    if let Some(next) = c.sim.pick_next(&mut st, None) {
        st.switches += 1;
        st.current = next;
        let p = st.threads[next].parker.clone();
        drop(st);
        p.signal();
    }
    CTX.with(|x| *x.borrow_mut() = None);
}

/// Run `f` as thread 0 of a fresh simulation and drive it to its end.
pub fn run<F: FnOnce() + Send + 'static>(cfg: Config, f: F) -> Outcome {
    assert!(!in_sim(), "nested simulations are not supported");
    let mut sched_rng = Rng(cfg.seed ^ 0x5c4ed);
    let fault_rng = Rng(cfg.seed ^ 0xfa17);
    let mut pct_points = vec![];
    if let Strategy::Pct { d, horizon } = cfg.strategy {
        for _ in 0..d {
            pct_points.push(1 + sched_rng.below(horizon.max(1)));
        }
    }
    let sim = Arc::new(Sim {
        st: StdMutex::new(State {
            threads: vec![],
            current: 0,
            sched_rng,
            fault_rng,
            clock_ns: 0,
            timers: BinaryHeap::new(),
            timer_seq: 0,
            steps: 0,
            step_limit: cfg.step_limit,
            decisions: vec![],
            forced: cfg.forced.clone(),
            forced_pos: 0,
            strict: cfg.strict,
            strategy: cfg.strategy.clone(),
            pct_points,
            buggify: cfg.buggify.clone(),
            sched_hash: 0xcbf29ce484222325,
            switches: 0,
            timers_fired: 0,
            next_chan: 0,
            faults: vec![],
            ended: false,
        }),
        done: StdMutex::new(None),
        done_cv: StdCondvar::new(),
        sink: cfg.sink.clone(),
        cpus: cfg.cpus,
    });
    let parker = Parker::new();
    {
        let mut st = sim.st.lock().unwrap();
        let prio = match st.strategy {
            Strategy::Pct { d, .. } => (d as u64 + 1) + (st.sched_rng.next() >> 8),
            _ => 0,
        };
        st.threads.push(ThreadRec {
            status: Status::Runnable,
            wake: Wake::Notified,
            timer_seq: 0,
            parker: parker.clone(),
            name: Some("sim-main".into()),
            prio,
            panicked: false,
            holder: None,
        });
        sim.emit(&st, SeamEvent::Spawn { tid: 0, parent: 0, name: Some("sim-main".into()) });
    }
    let c = Ctx { sim: sim.clone(), tid: 0, parker: parker.clone() };
    let h = std::thread::Builder::new()
        .name("sim-main".into())
        .stack_size(1 << 20)
        .spawn(move || {
            enter_thread(c);
            let r = std::panic::catch_unwind(std::panic::AssertUnwindSafe(f));
            exit_thread(r.is_err());
        })
        .expect("spawn sim-main");
    parker.set_thread(h.thread().clone());
    parker.signal();
    // wait for the end of the run
    let (end, blocked) = {
        let mut d = sim.done.lock().unwrap();
        while d.is_none() {
            d = sim.done_cv.wait(d).unwrap();
        }
        d.take().unwrap()
    };
    if end == End::Complete {
        let _ = h.join();
    }
    let st = sim.st.lock().unwrap();
    Outcome {
        end,
        steps: st.steps,
        clock_ns: st.clock_ns,
        decisions: st.decisions.clone(),
        blocked,
        threads_total: st.threads.len(),
        threads_panicked: st.threads.iter().filter(|t| t.panicked).count(),
        schedule_hash: st.sched_hash,
        context_switches: st.switches,
        timers_fired: st.timers_fired,
        faults: st.faults.clone(),
    }
}
