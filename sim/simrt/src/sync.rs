//! std::sync look-alikes whose blocking and wake-ups are decided by the simulator.
//! Outside a simulation they fall back to the real primitives.

pub use std::sync::{Arc, LockResult, PoisonError, TryLockError, TryLockResult, Weak};

use crate::rt::{self, Obj, Op, Wake};
use std::fmt;
use std::ops::{Deref, DerefMut};
use std::time::Duration;

pub struct Mutex<T: ?Sized> {
    /// simulated thread holding the lock (diagnostics; usize::MAX = free)
    owner: std::sync::atomic::AtomicUsize,
    inner: std::sync::Mutex<T>,
}

pub struct MutexGuard<'a, T: ?Sized + 'a> {
    guard: Option<std::sync::MutexGuard<'a, T>>,
    mutex: &'a Mutex<T>,
}

impl<T> Mutex<T> {
    pub const fn new(t: T) -> Mutex<T> {
        Mutex { owner: std::sync::atomic::AtomicUsize::new(usize::MAX), inner: std::sync::Mutex::new(t) }
    }
    pub fn into_inner(self) -> LockResult<T> {
        self.inner.into_inner()
    }
}

impl<T: ?Sized> Mutex<T> {
    fn key(&self) -> Obj {
        Obj::Mutex(&self.inner as *const _ as *const u8 as usize)
    }

    fn wrap<'a>(&'a self, g: std::sync::MutexGuard<'a, T>) -> MutexGuard<'a, T> {
        self.owner.store(rt::current_tid(), std::sync::atomic::Ordering::Relaxed);
        MutexGuard { guard: Some(g), mutex: self }
    }

    pub fn lock(&self) -> LockResult<MutexGuard<'_, T>> {
        if !rt::in_sim() {
            return match self.inner.lock() {
                Ok(g) => Ok(self.wrap(g)),
                Err(p) => Err(PoisonError::new(self.wrap(p.into_inner()))),
            };
        }
        rt::point(Op::MutexLock);
        self.lock_no_point()
    }

    fn lock_no_point(&self) -> LockResult<MutexGuard<'_, T>> {
        loop {
            match self.inner.try_lock() {
                Ok(g) => return Ok(self.wrap(g)),
                Err(TryLockError::Poisoned(p)) => {
                    return Err(PoisonError::new(self.wrap(p.into_inner())))
                }
                Err(TryLockError::WouldBlock) => {
                    let o = self.owner.load(std::sync::atomic::Ordering::Relaxed);
                    rt::note_holder(if o == usize::MAX { None } else { Some(o) });
                    rt::block(self.key(), None);
                }
            }
        }
    }

    pub fn try_lock(&self) -> TryLockResult<MutexGuard<'_, T>> {
        rt::point(Op::MutexLock);
        match self.inner.try_lock() {
            Ok(g) => Ok(self.wrap(g)),
            Err(TryLockError::Poisoned(p)) => {
                Err(TryLockError::Poisoned(PoisonError::new(self.wrap(p.into_inner()))))
            }
            Err(TryLockError::WouldBlock) => Err(TryLockError::WouldBlock),
        }
    }

    pub fn is_poisoned(&self) -> bool {
        self.inner.is_poisoned()
    }

    pub fn clear_poison(&self) {
        self.inner.clear_poison()
    }

    pub fn get_mut(&mut self) -> LockResult<&mut T> {
        self.inner.get_mut()
    }
}

impl<T: Default> Default for Mutex<T> {
    fn default() -> Self {
        Mutex::new(T::default())
    }
}

impl<T> From<T> for Mutex<T> {
    fn from(t: T) -> Self {
        Mutex::new(t)
    }
}

impl<T: ?Sized + fmt::Debug> fmt::Debug for Mutex<T> {
    fn fmt(&self, f: &mut fmt::Formatter<'_>) -> fmt::Result {
        f.write_str("Mutex { .. }")
    }
}

impl<T: ?Sized> Deref for MutexGuard<'_, T> {
    type Target = T;
    fn deref(&self) -> &T {
        self.guard.as_ref().unwrap()
    }
}

impl<T: ?Sized> DerefMut for MutexGuard<'_, T> {
    fn deref_mut(&mut self) -> &mut T {
        self.guard.as_mut().unwrap()
    }
}

impl<T: ?Sized> Drop for MutexGuard<'_, T> {
    fn drop(&mut self) {
        if let Some(g) = self.guard.take() {
            self.mutex.owner.store(usize::MAX, std::sync::atomic::Ordering::Relaxed);
            drop(g);
            rt::wake_all(self.mutex.key());
        }
    }
}

impl<T: ?Sized + fmt::Debug> fmt::Debug for MutexGuard<'_, T> {
    fn fmt(&self, f: &mut fmt::Formatter<'_>) -> fmt::Result {
        fmt::Debug::fmt(&**self, f)
    }
}

impl<T: ?Sized + fmt::Display> fmt::Display for MutexGuard<'_, T> {
    fn fmt(&self, f: &mut fmt::Formatter<'_>) -> fmt::Result {
        fmt::Display::fmt(&**self, f)
    }
}

#[derive(Debug, PartialEq, Eq, Copy, Clone)]
pub struct WaitTimeoutResult(bool);

impl WaitTimeoutResult {
    pub fn timed_out(&self) -> bool {
        self.0
    }
}

pub struct Condvar {
    // non-zero-sized so that distinct condvars have distinct addresses
    _id: u8,
    real: std::sync::Condvar,
}

impl Default for Condvar {
    fn default() -> Self {
        Condvar::new()
    }
}

impl fmt::Debug for Condvar {
    fn fmt(&self, f: &mut fmt::Formatter<'_>) -> fmt::Result {
        f.write_str("Condvar { .. }")
    }
}

impl Condvar {
    pub const fn new() -> Condvar {
        Condvar { _id: 0, real: std::sync::Condvar::new() }
    }

    fn key(&self) -> Obj {
        Obj::Condvar(&self._id as *const u8 as usize)
    }

    fn wait_inner<'a, T>(
        &self,
        mut guard: MutexGuard<'a, T>,
        deadline_ns: Option<u64>,
    ) -> (LockResult<MutexGuard<'a, T>>, bool) {
        let mutex = guard.mutex;
        rt::point(Op::CondWait);
        // release the mutex and enqueue atomically (no scheduling point in between)
        let g = guard.guard.take().unwrap();
        mutex.owner.store(usize::MAX, std::sync::atomic::Ordering::Relaxed);
        drop(g);
        rt::wake_all(mutex.key());
        drop(guard);
        let timed_out = if rt::fault(|b| b.spurious_wake_pm, "spurious_wakeup") {
            // legal: the wait returns without a notification; the lock was released and
            // is re-acquired below, with a scheduling point in between
            rt::point(Op::Yield);
            false
        } else {
            rt::block(self.key(), deadline_ns) == Wake::TimedOut
        };
        (mutex.lock_no_point(), timed_out)
    }

    pub fn wait<'a, T>(&self, guard: MutexGuard<'a, T>) -> LockResult<MutexGuard<'a, T>> {
        if !rt::in_sim() {
            return self.real_wait(guard, None).0;
        }
        self.wait_inner(guard, None).0
    }

    fn real_wait<'a, T>(
        &self,
        mut guard: MutexGuard<'a, T>,
        dur: Option<Duration>,
    ) -> (LockResult<MutexGuard<'a, T>>, bool) {
        let mutex = guard.mutex;
        let g = guard.guard.take().unwrap();
        drop(guard);
        match dur {
            None => match self.real.wait(g) {
                Ok(g) => (Ok(mutex.wrap(g)), false),
                Err(p) => (Err(PoisonError::new(mutex.wrap(p.into_inner()))), false),
            },
            Some(d) => match self.real.wait_timeout(g, d) {
                Ok((g, r)) => (Ok(mutex.wrap(g)), r.timed_out()),
                Err(p) => {
                    let (g, r) = p.into_inner();
                    (Err(PoisonError::new(mutex.wrap(g))), r.timed_out())
                }
            },
        }
    }

    pub fn wait_while<'a, T, F>(
        &self,
        mut guard: MutexGuard<'a, T>,
        mut condition: F,
    ) -> LockResult<MutexGuard<'a, T>>
    where
        F: FnMut(&mut T) -> bool,
    {
        while condition(&mut *guard) {
            guard = self.wait(guard)?;
        }
        Ok(guard)
    }

    pub fn wait_timeout<'a, T>(
        &self,
        guard: MutexGuard<'a, T>,
        dur: Duration,
    ) -> LockResult<(MutexGuard<'a, T>, WaitTimeoutResult)> {
        if !rt::in_sim() {
            let (r, to) = self.real_wait(guard, Some(dur));
            return match r {
                Ok(g) => Ok((g, WaitTimeoutResult(to))),
                Err(p) => Err(PoisonError::new((p.into_inner(), WaitTimeoutResult(to)))),
            };
        }
        let dl = rt::now_ns().saturating_add(dur.as_nanos().min(u64::MAX as u128) as u64);
        let (r, to) = self.wait_inner(guard, Some(dl));
        match r {
            Ok(g) => Ok((g, WaitTimeoutResult(to))),
            Err(p) => Err(PoisonError::new((p.into_inner(), WaitTimeoutResult(to)))),
        }
    }

    pub fn wait_timeout_while<'a, T, F>(
        &self,
        mut guard: MutexGuard<'a, T>,
        dur: Duration,
        mut condition: F,
    ) -> LockResult<(MutexGuard<'a, T>, WaitTimeoutResult)>
    where
        F: FnMut(&mut T) -> bool,
    {
        let start_ns = rt::now_ns();
        loop {
            if !condition(&mut *guard) {
                return Ok((guard, WaitTimeoutResult(false)));
            }
            let elapsed = Duration::from_nanos(rt::now_ns().saturating_sub(start_ns));
            let timeout = match dur.checked_sub(elapsed) {
                Some(t) if !t.is_zero() => t,
                _ => return Ok((guard, WaitTimeoutResult(true))),
            };
            guard = self.wait_timeout(guard, timeout)?.0;
        }
    }

    pub fn notify_one(&self) {
        if !rt::in_sim() {
            self.real.notify_one();
            return;
        }
        rt::point(Op::CondNotify);
        rt::wake_one(self.key());
    }

    pub fn notify_all(&self) {
        if !rt::in_sim() {
            self.real.notify_all();
            return;
        }
        rt::point(Op::CondNotify);
        rt::wake_all(self.key());
    }
}

pub mod atomic {
    pub use std::sync::atomic::Ordering;
    use crate::rt::{self, Op};
    use std::fmt;

    macro_rules! sim_atomic_int {
        ($name:ident, $std:ident, $t:ty) => {
            #[derive(Default)]
            pub struct $name {
                inner: std::sync::atomic::$std,
            }
            impl fmt::Debug for $name {
                fn fmt(&self, f: &mut fmt::Formatter<'_>) -> fmt::Result {
                    fmt::Debug::fmt(&self.inner, f)
                }
            }
            impl From<$t> for $name {
                fn from(v: $t) -> Self {
                    Self::new(v)
                }
            }
            impl $name {
                pub const fn new(v: $t) -> Self {
                    Self { inner: std::sync::atomic::$std::new(v) }
                }
                pub fn into_inner(self) -> $t {
                    self.inner.into_inner()
                }
                pub fn get_mut(&mut self) -> &mut $t {
                    self.inner.get_mut()
                }
                pub fn load(&self, o: Ordering) -> $t {
                    rt::point(Op::Atomic);
                    self.inner.load(o)
                }
                pub fn store(&self, v: $t, o: Ordering) {
                    rt::point(Op::Atomic);
                    self.inner.store(v, o)
                }
                pub fn swap(&self, v: $t, o: Ordering) -> $t {
                    rt::point(Op::Atomic);
                    self.inner.swap(v, o)
                }
                pub fn fetch_add(&self, v: $t, o: Ordering) -> $t {
                    rt::point(Op::Atomic);
                    self.inner.fetch_add(v, o)
                }
                pub fn fetch_sub(&self, v: $t, o: Ordering) -> $t {
                    rt::point(Op::Atomic);
                    self.inner.fetch_sub(v, o)
                }
                pub fn fetch_and(&self, v: $t, o: Ordering) -> $t {
                    rt::point(Op::Atomic);
                    self.inner.fetch_and(v, o)
                }
                pub fn fetch_or(&self, v: $t, o: Ordering) -> $t {
                    rt::point(Op::Atomic);
                    self.inner.fetch_or(v, o)
                }
                pub fn fetch_xor(&self, v: $t, o: Ordering) -> $t {
                    rt::point(Op::Atomic);
                    self.inner.fetch_xor(v, o)
                }
                pub fn fetch_max(&self, v: $t, o: Ordering) -> $t {
                    rt::point(Op::Atomic);
                    self.inner.fetch_max(v, o)
                }
                pub fn fetch_min(&self, v: $t, o: Ordering) -> $t {
                    rt::point(Op::Atomic);
                    self.inner.fetch_min(v, o)
                }
                pub fn compare_exchange(
                    &self,
                    cur: $t,
                    new: $t,
                    s: Ordering,
                    f: Ordering,
                ) -> Result<$t, $t> {
                    rt::point(Op::Atomic);
                    self.inner.compare_exchange(cur, new, s, f)
                }
                pub fn compare_exchange_weak(
                    &self,
                    cur: $t,
                    new: $t,
                    s: Ordering,
                    f: Ordering,
                ) -> Result<$t, $t> {
                    rt::point(Op::Atomic);
                    if rt::fault(|b| b.weak_cas_pm, "weak_cas_fail") {
                        return Err(self.inner.load(f));
                    }
                    self.inner.compare_exchange(cur, new, s, f)
                }
                pub fn fetch_update<F>(&self, s: Ordering, f: Ordering, mut func: F) -> Result<$t, $t>
                where
                    F: FnMut($t) -> Option<$t>,
                {
                    let mut prev = self.load(f);
                    while let Some(next) = func(prev) {
                        match self.compare_exchange_weak(prev, next, s, f) {
                            x @ Ok(_) => return x,
                            Err(np) => prev = np,
                        }
                    }
                    Err(prev)
                }
            }
        };
    }

    sim_atomic_int!(AtomicUsize, AtomicUsize, usize);
    sim_atomic_int!(AtomicIsize, AtomicIsize, isize);
    sim_atomic_int!(AtomicU64, AtomicU64, u64);
    sim_atomic_int!(AtomicI64, AtomicI64, i64);
    sim_atomic_int!(AtomicU32, AtomicU32, u32);
    sim_atomic_int!(AtomicI32, AtomicI32, i32);
    sim_atomic_int!(AtomicU8, AtomicU8, u8);

    #[derive(Default)]
    pub struct AtomicBool {
        inner: std::sync::atomic::AtomicBool,
    }
    impl fmt::Debug for AtomicBool {
        fn fmt(&self, f: &mut fmt::Formatter<'_>) -> fmt::Result {
            fmt::Debug::fmt(&self.inner, f)
        }
    }
    impl AtomicBool {
        pub const fn new(v: bool) -> Self {
            Self { inner: std::sync::atomic::AtomicBool::new(v) }
        }
        pub fn load(&self, o: Ordering) -> bool {
            rt::point(Op::Atomic);
            self.inner.load(o)
        }
        pub fn store(&self, v: bool, o: Ordering) {
            rt::point(Op::Atomic);
            self.inner.store(v, o)
        }
        pub fn swap(&self, v: bool, o: Ordering) -> bool {
            rt::point(Op::Atomic);
            self.inner.swap(v, o)
        }
        pub fn fetch_or(&self, v: bool, o: Ordering) -> bool {
            rt::point(Op::Atomic);
            self.inner.fetch_or(v, o)
        }
        pub fn fetch_and(&self, v: bool, o: Ordering) -> bool {
            rt::point(Op::Atomic);
            self.inner.fetch_and(v, o)
        }
        pub fn compare_exchange(
            &self,
            cur: bool,
            new: bool,
            s: Ordering,
            f: Ordering,
        ) -> Result<bool, bool> {
            rt::point(Op::Atomic);
            self.inner.compare_exchange(cur, new, s, f)
        }
        pub fn compare_exchange_weak(
            &self,
            cur: bool,
            new: bool,
            s: Ordering,
            f: Ordering,
        ) -> Result<bool, bool> {
            rt::point(Op::Atomic);
            if rt::fault(|b| b.weak_cas_pm, "weak_cas_fail") {
                return Err(self.inner.load(f));
            }
            self.inner.compare_exchange(cur, new, s, f)
        }
    }
}
