//! std::sync look-alikes whose blocking and wake-ups are decided by the simulator.
//! Outside a simulation they fall back to the real primitives.

pub use std::sync::{Arc, LockResult, PoisonError, TryLockError, TryLockResult, Weak};

use crate::rt::{self, Obj, Op, Wake};
use std::fmt;
use std::ops::{Deref, DerefMut};
use std::time::Duration;

pub struct Mutex<T: ?Sized> {
    /// simulated thread holding the lock (diagnostics; usize::MAX = free)
    owner: std::sync::atomic::AtomicUsize,
    inner: std::sync::Mutex<T>,
}

pub struct MutexGuard<'a, T: ?Sized + 'a> {
    guard: Option<std::sync::MutexGuard<'a, T>>,
    mutex: &'a Mutex<T>,
}

impl<T> Mutex<T> {
    pub const fn new(t: T) -> Mutex<T> {
        Mutex { owner: std::sync::atomic::AtomicUsize::new(usize::MAX), inner: std::sync::Mutex::new(t) }
    }
    pub fn into_inner(self) -> LockResult<T> {
        self.inner.into_inner()
    }
}

impl<T: ?Sized> Mutex<T> {
    fn key(&self) -> Obj {
        Obj::Mutex(&self.inner as *const _ as *const u8 as usize)
    }

    fn wrap<'a>(&'a self, g: std::sync::MutexGuard<'a, T>) -> MutexGuard<'a, T> {
        self.owner.store(rt::current_tid(), std::sync::atomic::Ordering::Relaxed);
        MutexGuard { guard: Some(g), mutex: self }
    }

    pub fn lock(&self) -> LockResult<MutexGuard<'_, T>> {
        if !rt::in_sim() {
            return match self.inner.lock() {
                Ok(g) => Ok(self.wrap(g)),
                Err(p) => Err(PoisonError::new(self.wrap(p.into_inner()))),
            };
        }
        rt::point(Op::MutexLock);
        self.lock_no_point()
    }

    fn lock_no_point(&self) -> LockResult<MutexGuard<'_, T>> {
        loop {
            match self.inner.try_lock() {
                Ok(g) => return Ok(self.wrap(g)),
                Err(TryLockError::Poisoned(p)) => {
                    return Err(PoisonError::new(self.wrap(p.into_inner())))
                }
                Err(TryLockError::WouldBlock) => {
                    let o = self.owner.load(std::sync::atomic::Ordering::Relaxed);
                    rt::note_holder(if o == usize::MAX { None } else { Some(o) });
                    rt::block(self.key(), None);
                }
            }
        }
    }

    pub fn try_lock(&self) -> TryLockResult<MutexGuard<'_, T>> {
        rt::point(Op::MutexLock);
        match self.inner.try_lock() {
            Ok(g) => Ok(self.wrap(g)),
            Err(TryLockError::Poisoned(p)) => {
                Err(TryLockError::Poisoned(PoisonError::new(self.wrap(p.into_inner()))))
            }
            Err(TryLockError::WouldBlock) => Err(TryLockError::WouldBlock),
        }
    }

    pub fn is_poisoned(&self) -> bool {
        self.inner.is_poisoned()
    }

    pub fn clear_poison(&self) {
        self.inner.clear_poison()
    }

    pub fn get_mut(&mut self) -> LockResult<&mut T> {
        self.inner.get_mut()
    }
}

impl<T: Default> Default for Mutex<T> {
    fn default() -> Self {
        Mutex::new(T::default())
    }
}

impl<T> From<T> for Mutex<T> {
    fn from(t: T) -> Self {
        Mutex::new(t)
    }
}

impl<T: ?Sized + fmt::Debug> fmt::Debug for Mutex<T> {
    fn fmt(&self, f: &mut fmt::Formatter<'_>) -> fmt::Result {
        f.write_str("Mutex { .. }")
    }
}

impl<T: ?Sized> Deref for MutexGuard<'_, T> {
    type Target = T;
    fn deref(&self) -> &T {
        self.guard.as_ref().unwrap()
    }
}

impl<T: ?Sized> DerefMut for MutexGuard<'_, T> {
    fn deref_mut(&mut self) -> &mut T {
        self.guard.as_mut().unwrap()
    }
}

impl<T: ?Sized> Drop for MutexGuard<'_, T> {
    fn drop(&mut self) {
        if let Some(g) = self.guard.take() {
            // a thread can be preempted while it holds a lock: others then see it held
            // (try_lock fails, lock() waits).  Not while unwinding: no scheduling inside a panic.
            if rt::in_sim() && !std::thread::panicking() {
                rt::point(Op::MutexUnlock);
            }
            self.mutex.owner.store(usize::MAX, std::sync::atomic::Ordering::Relaxed);
            drop(g);
            rt::wake_all(self.mutex.key());
        }
    }
}

impl<T: ?Sized + fmt::Debug> fmt::Debug for MutexGuard<'_, T> {
    fn fmt(&self, f: &mut fmt::Formatter<'_>) -> fmt::Result {
        fmt::Debug::fmt(&**self, f)
    }
}

impl<T: ?Sized + fmt::Display> fmt::Display for MutexGuard<'_, T> {
    fn fmt(&self, f: &mut fmt::Formatter<'_>) -> fmt::Result {
        fmt::Display::fmt(&**self, f)
    }
}

#[derive(Debug, PartialEq, Eq, Copy, Clone)]
pub struct WaitTimeoutResult(bool);

impl WaitTimeoutResult {
    pub fn timed_out(&self) -> bool {
        self.0
    }
}

pub struct Condvar {
    // non-zero-sized so that distinct condvars have distinct addresses
    _id: u8,
    real: std::sync::Condvar,
}

impl Default for Condvar {
    fn default() -> Self {
        Condvar::new()
    }
}

impl fmt::Debug for Condvar {
    fn fmt(&self, f: &mut fmt::Formatter<'_>) -> fmt::Result {
        f.write_str("Condvar { .. }")
    }
}

impl Condvar {
    pub const fn new() -> Condvar {
        Condvar { _id: 0, real: std::sync::Condvar::new() }
    }

    fn key(&self) -> Obj {
        Obj::Condvar(&self._id as *const u8 as usize)
    }

    fn wait_inner<'a, T>(
        &self,
        mut guard: MutexGuard<'a, T>,
        deadline_ns: Option<u64>,
    ) -> (LockResult<MutexGuard<'a, T>>, bool) {
        let mutex = guard.mutex;
        rt::point(Op::CondWait);
        // release the mutex and enqueue atomically (no scheduling point in between)
        let g = guard.guard.take().unwrap();
        mutex.owner.store(usize::MAX, std::sync::atomic::Ordering::Relaxed);
        drop(g);
        rt::wake_all(mutex.key());
        drop(guard);
        let timed_out = if rt::fault(|b| b.spurious_wake_pm, "spurious_wakeup") {
            // legal: the wait returns without a notification; the lock was released and
            // is re-acquired below, with a scheduling point in between
            rt::point(Op::Yield);
            false
        } else {
            rt::block(self.key(), deadline_ns) == Wake::TimedOut
        };
        (mutex.lock_no_point(), timed_out)
    }

    pub fn wait<'a, T>(&self, guard: MutexGuard<'a, T>) -> LockResult<MutexGuard<'a, T>> {
        if !rt::in_sim() {
            return self.real_wait(guard, None).0;
        }
        self.wait_inner(guard, None).0
    }

    fn real_wait<'a, T>(
        &self,
        mut guard: MutexGuard<'a, T>,
        dur: Option<Duration>,
    ) -> (LockResult<MutexGuard<'a, T>>, bool) {
        let mutex = guard.mutex;
        let g = guard.guard.take().unwrap();
        drop(guard);
        match dur {
            None => match self.real.wait(g) {
                Ok(g) => (Ok(mutex.wrap(g)), false),
                Err(p) => (Err(PoisonError::new(mutex.wrap(p.into_inner()))), false),
            },
            Some(d) => match self.real.wait_timeout(g, d) {
                Ok((g, r)) => (Ok(mutex.wrap(g)), r.timed_out()),
                Err(p) => {
                    let (g, r) = p.into_inner();
                    (Err(PoisonError::new(mutex.wrap(g))), r.timed_out())
                }
            },
        }
    }

    pub fn wait_while<'a, T, F>(
        &self,
        mut guard: MutexGuard<'a, T>,
        mut condition: F,
    ) -> LockResult<MutexGuard<'a, T>>
    where
        F: FnMut(&mut T) -> bool,
    {
        while condition(&mut *guard) {
            guard = self.wait(guard)?;
        }
        Ok(guard)
    }

    pub fn wait_timeout<'a, T>(
        &self,
        guard: MutexGuard<'a, T>,
        dur: Duration,
    ) -> LockResult<(MutexGuard<'a, T>, WaitTimeoutResult)> {
        if !rt::in_sim() {
            let (r, to) = self.real_wait(guard, Some(dur));
            return match r {
                Ok(g) => Ok((g, WaitTimeoutResult(to))),
                Err(p) => Err(PoisonError::new((p.into_inner(), WaitTimeoutResult(to)))),
            };
        }
        let dl = rt::now_ns().saturating_add(dur.as_nanos().min(u64::MAX as u128) as u64);
        let (r, to) = self.wait_inner(guard, Some(dl));
        match r {
            Ok(g) => Ok((g, WaitTimeoutResult(to))),
            Err(p) => Err(PoisonError::new((p.into_inner(), WaitTimeoutResult(to)))),
        }
    }

    pub fn wait_timeout_while<'a, T, F>(
        &self,
        mut guard: MutexGuard<'a, T>,
        dur: Duration,
        mut condition: F,
    ) -> LockResult<(MutexGuard<'a, T>, WaitTimeoutResult)>
    where
        F: FnMut(&mut T) -> bool,
    {
        let start_ns = rt::now_ns();
        loop {
            if !condition(&mut *guard) {
                return Ok((guard, WaitTimeoutResult(false)));
            }
            let elapsed = Duration::from_nanos(rt::now_ns().saturating_sub(start_ns));
            let timeout = match dur.checked_sub(elapsed) {
                Some(t) if !t.is_zero() => t,
                _ => return Ok((guard, WaitTimeoutResult(true))),
            };
            guard = self.wait_timeout(guard, timeout)?.0;
        }
    }

    pub fn notify_one(&self) {
        if !rt::in_sim() {
            self.real.notify_one();
            return;
        }
        rt::point(Op::CondNotify);
        rt::wake_one(self.key());
    }

    pub fn notify_all(&self) {
        if !rt::in_sim() {
            self.real.notify_all();
            return;
        }
        rt::point(Op::CondNotify);
        rt::wake_all(self.key());
    }
}

pub mod atomic {
    pub use std::sync::atomic::Ordering;
    use crate::rt::{self, Op};
    use std::fmt;

    macro_rules! sim_atomic_int {
        ($name:ident, $std:ident, $t:ty) => {
            #[derive(Default)]
            pub struct $name {
                inner: std::sync::atomic::$std,
            }
            impl fmt::Debug for $name {
                fn fmt(&self, f: &mut fmt::Formatter<'_>) -> fmt::Result {
                    fmt::Debug::fmt(&self.inner, f)
                }
            }
            impl From<$t> for $name {
                fn from(v: $t) -> Self {
                    Self::new(v)
                }
            }
            impl $name {
                pub const fn new(v: $t) -> Self {
                    Self { inner: std::sync::atomic::$std::new(v) }
                }
                pub fn into_inner(self) -> $t {
                    self.inner.into_inner()
                }
                pub fn get_mut(&mut self) -> &mut $t {
                    self.inner.get_mut()
                }
                pub fn load(&self, o: Ordering) -> $t {
                    rt::point(Op::Atomic);
                    self.inner.load(o)
                }
                pub fn store(&self, v: $t, o: Ordering) {
                    rt::point(Op::Atomic);
                    self.inner.store(v, o)
                }
                pub fn swap(&self, v: $t, o: Ordering) -> $t {
                    rt::point(Op::Atomic);
                    self.inner.swap(v, o)
                }
                pub fn fetch_add(&self, v: $t, o: Ordering) -> $t {
                    rt::point(Op::Atomic);
                    self.inner.fetch_add(v, o)
                }
                pub fn fetch_sub(&self, v: $t, o: Ordering) -> $t {
                    rt::point(Op::Atomic);
                    self.inner.fetch_sub(v, o)
                }
                pub fn fetch_and(&self, v: $t, o: Ordering) -> $t {
                    rt::point(Op::Atomic);
                    self.inner.fetch_and(v, o)
                }
                pub fn fetch_or(&self, v: $t, o: Ordering) -> $t {
                    rt::point(Op::Atomic);
                    self.inner.fetch_or(v, o)
                }
                pub fn fetch_nand(&self, v: $t, o: Ordering) -> $t {
                    rt::point(Op::Atomic);
                    self.inner.fetch_nand(v, o)
                }
                pub fn fetch_xor(&self, v: $t, o: Ordering) -> $t {
                    rt::point(Op::Atomic);
                    self.inner.fetch_xor(v, o)
                }
                pub fn fetch_max(&self, v: $t, o: Ordering) -> $t {
                    rt::point(Op::Atomic);
                    self.inner.fetch_max(v, o)
                }
                pub fn fetch_min(&self, v: $t, o: Ordering) -> $t {
                    rt::point(Op::Atomic);
                    self.inner.fetch_min(v, o)
                }
                pub fn compare_exchange(
                    &self,
                    cur: $t,
                    new: $t,
                    s: Ordering,
                    f: Ordering,
                ) -> Result<$t, $t> {
                    rt::point(Op::Atomic);
                    self.inner.compare_exchange(cur, new, s, f)
                }
                pub fn compare_exchange_weak(
                    &self,
                    cur: $t,
                    new: $t,
                    s: Ordering,
                    f: Ordering,
                ) -> Result<$t, $t> {
                    rt::point(Op::Atomic);
                    if rt::fault(|b| b.weak_cas_pm, "weak_cas_fail") {
                        return Err(self.inner.load(f));
                    }
                    self.inner.compare_exchange(cur, new, s, f)
                }
                pub fn fetch_update<F>(&self, s: Ordering, f: Ordering, mut func: F) -> Result<$t, $t>
                where
                    F: FnMut($t) -> Option<$t>,
                {
                    let mut prev = self.load(f);
                    while let Some(next) = func(prev) {
                        match self.compare_exchange_weak(prev, next, s, f) {
                            x @ Ok(_) => return x,
                            Err(np) => prev = np,
                        }
                    }
                    Err(prev)
                }
            }
        };
    }

    sim_atomic_int!(AtomicUsize, AtomicUsize, usize);
    sim_atomic_int!(AtomicIsize, AtomicIsize, isize);
    sim_atomic_int!(AtomicU64, AtomicU64, u64);
    sim_atomic_int!(AtomicI64, AtomicI64, i64);
    sim_atomic_int!(AtomicU32, AtomicU32, u32);
    sim_atomic_int!(AtomicI32, AtomicI32, i32);
    sim_atomic_int!(AtomicU8, AtomicU8, u8);
    sim_atomic_int!(AtomicI8, AtomicI8, i8);
    sim_atomic_int!(AtomicU16, AtomicU16, u16);
    sim_atomic_int!(AtomicI16, AtomicI16, i16);
    pub use std::sync::atomic::{compiler_fence, fence, AtomicPtr};

    #[derive(Default)]
    pub struct AtomicBool {
        inner: std::sync::atomic::AtomicBool,
    }
    impl fmt::Debug for AtomicBool {
        fn fmt(&self, f: &mut fmt::Formatter<'_>) -> fmt::Result {
            fmt::Debug::fmt(&self.inner, f)
        }
    }
    impl From<bool> for AtomicBool {
        fn from(v: bool) -> Self {
            Self::new(v)
        }
    }
    impl AtomicBool {
        pub const fn new(v: bool) -> Self {
            Self { inner: std::sync::atomic::AtomicBool::new(v) }
        }
        pub fn load(&self, o: Ordering) -> bool {
            rt::point(Op::Atomic);
            self.inner.load(o)
        }
        pub fn store(&self, v: bool, o: Ordering) {
            rt::point(Op::Atomic);
            self.inner.store(v, o)
        }
        pub fn swap(&self, v: bool, o: Ordering) -> bool {
            rt::point(Op::Atomic);
            self.inner.swap(v, o)
        }
        pub fn fetch_or(&self, v: bool, o: Ordering) -> bool {
            rt::point(Op::Atomic);
            self.inner.fetch_or(v, o)
        }
        pub fn fetch_and(&self, v: bool, o: Ordering) -> bool {
            rt::point(Op::Atomic);
            self.inner.fetch_and(v, o)
        }
        pub fn fetch_xor(&self, v: bool, o: Ordering) -> bool {
            rt::point(Op::Atomic);
            self.inner.fetch_xor(v, o)
        }
        pub fn fetch_nand(&self, v: bool, o: Ordering) -> bool {
            rt::point(Op::Atomic);
            self.inner.fetch_nand(v, o)
        }
        pub fn fetch_update<F>(&self, s: Ordering, f: Ordering, func: F) -> Result<bool, bool>
        where
            F: FnMut(bool) -> Option<bool>,
        {
            rt::point(Op::Atomic);
            self.inner.fetch_update(s, f, func)
        }
        pub fn get_mut(&mut self) -> &mut bool {
            self.inner.get_mut()
        }
        pub fn into_inner(self) -> bool {
            self.inner.into_inner()
        }
        pub fn compare_exchange(
            &self,
            cur: bool,
            new: bool,
            s: Ordering,
            f: Ordering,
        ) -> Result<bool, bool> {
            rt::point(Op::Atomic);
            self.inner.compare_exchange(cur, new, s, f)
        }
        pub fn compare_exchange_weak(
            &self,
            cur: bool,
            new: bool,
            s: Ordering,
            f: Ordering,
        ) -> Result<bool, bool> {
            rt::point(Op::Atomic);
            if rt::fault(|b| b.weak_cas_pm, "weak_cas_fail") {
                return Err(self.inner.load(f));
            }
            self.inner.compare_exchange(cur, new, s, f)
        }
    }
}

// ---------------------------------------------------------------------------------------------
// RwLock, Barrier, Once, OnceLock, mpsc: primitives rs-store does not use today; a changed tree
// may (the shadow build rewrites every `std::sync::` path to this module).

pub struct RwLock<T: ?Sized> {
    /// simulated thread that holds the lock for writing, or took it last for reading
    /// (diagnostics for blocked threads; usize::MAX = nobody)
    owner: std::sync::atomic::AtomicUsize,
    inner: std::sync::RwLock<T>,
}

pub struct RwLockReadGuard<'a, T: ?Sized + 'a> {
    guard: Option<std::sync::RwLockReadGuard<'a, T>>,
    lock: &'a RwLock<T>,
}

pub struct RwLockWriteGuard<'a, T: ?Sized + 'a> {
    guard: Option<std::sync::RwLockWriteGuard<'a, T>>,
    lock: &'a RwLock<T>,
}

impl<T> RwLock<T> {
    pub const fn new(t: T) -> RwLock<T> {
        RwLock { owner: std::sync::atomic::AtomicUsize::new(usize::MAX), inner: std::sync::RwLock::new(t) }
    }
    pub fn into_inner(self) -> LockResult<T> {
        self.inner.into_inner()
    }
}

impl<T: ?Sized> RwLock<T> {
    fn key(&self) -> Obj {
        Obj::Mutex(&self.inner as *const _ as *const u8 as usize)
    }

    fn rd<'a>(&'a self, g: std::sync::RwLockReadGuard<'a, T>) -> RwLockReadGuard<'a, T> {
        self.owner.store(rt::current_tid(), std::sync::atomic::Ordering::Relaxed);
        RwLockReadGuard { guard: Some(g), lock: self }
    }

    fn wr<'a>(&'a self, g: std::sync::RwLockWriteGuard<'a, T>) -> RwLockWriteGuard<'a, T> {
        self.owner.store(rt::current_tid(), std::sync::atomic::Ordering::Relaxed);
        RwLockWriteGuard { guard: Some(g), lock: self }
    }

    fn note(&self) {
        let o = self.owner.load(std::sync::atomic::Ordering::Relaxed);
        rt::note_holder(if o == usize::MAX { None } else { Some(o) });
    }

    pub fn read(&self) -> LockResult<RwLockReadGuard<'_, T>> {
        if !rt::in_sim() {
            return match self.inner.read() {
                Ok(g) => Ok(self.rd(g)),
                Err(p) => Err(PoisonError::new(self.rd(p.into_inner()))),
            };
        }
        rt::point(Op::MutexLock);
        loop {
            match self.inner.try_read() {
                Ok(g) => return Ok(self.rd(g)),
                Err(TryLockError::Poisoned(p)) => return Err(PoisonError::new(self.rd(p.into_inner()))),
                Err(TryLockError::WouldBlock) => {
                    self.note();
                    rt::block(self.key(), None);
                }
            }
        }
    }

    pub fn write(&self) -> LockResult<RwLockWriteGuard<'_, T>> {
        if !rt::in_sim() {
            return match self.inner.write() {
                Ok(g) => Ok(self.wr(g)),
                Err(p) => Err(PoisonError::new(self.wr(p.into_inner()))),
            };
        }
        rt::point(Op::MutexLock);
        loop {
            match self.inner.try_write() {
                Ok(g) => return Ok(self.wr(g)),
                Err(TryLockError::Poisoned(p)) => return Err(PoisonError::new(self.wr(p.into_inner()))),
                Err(TryLockError::WouldBlock) => {
                    self.note();
                    rt::block(self.key(), None);
                }
            }
        }
    }

    pub fn try_read(&self) -> TryLockResult<RwLockReadGuard<'_, T>> {
        rt::point(Op::MutexLock);
        match self.inner.try_read() {
            Ok(g) => Ok(self.rd(g)),
            Err(TryLockError::Poisoned(p)) => Err(TryLockError::Poisoned(PoisonError::new(self.rd(p.into_inner())))),
            Err(TryLockError::WouldBlock) => Err(TryLockError::WouldBlock),
        }
    }

    pub fn try_write(&self) -> TryLockResult<RwLockWriteGuard<'_, T>> {
        rt::point(Op::MutexLock);
        match self.inner.try_write() {
            Ok(g) => Ok(self.wr(g)),
            Err(TryLockError::Poisoned(p)) => Err(TryLockError::Poisoned(PoisonError::new(self.wr(p.into_inner())))),
            Err(TryLockError::WouldBlock) => Err(TryLockError::WouldBlock),
        }
    }

    pub fn is_poisoned(&self) -> bool {
        self.inner.is_poisoned()
    }

    pub fn clear_poison(&self) {
        self.inner.clear_poison()
    }

    pub fn get_mut(&mut self) -> LockResult<&mut T> {
        self.inner.get_mut()
    }
}

impl<T: Default> Default for RwLock<T> {
    fn default() -> Self {
        RwLock::new(T::default())
    }
}

impl<T> From<T> for RwLock<T> {
    fn from(t: T) -> Self {
        RwLock::new(t)
    }
}

impl<T: ?Sized + fmt::Debug> fmt::Debug for RwLock<T> {
    fn fmt(&self, f: &mut fmt::Formatter<'_>) -> fmt::Result {
        f.write_str("RwLock { .. }")
    }
}

impl<T: ?Sized> Deref for RwLockReadGuard<'_, T> {
    type Target = T;
    fn deref(&self) -> &T {
        self.guard.as_ref().unwrap()
    }
}

impl<T: ?Sized> Deref for RwLockWriteGuard<'_, T> {
    type Target = T;
    fn deref(&self) -> &T {
        self.guard.as_ref().unwrap()
    }
}

impl<T: ?Sized> DerefMut for RwLockWriteGuard<'_, T> {
    fn deref_mut(&mut self) -> &mut T {
        self.guard.as_mut().unwrap()
    }
}

impl<T: ?Sized> Drop for RwLockReadGuard<'_, T> {
    fn drop(&mut self) {
        if let Some(g) = self.guard.take() {
            if rt::in_sim() && !std::thread::panicking() {
                rt::point(Op::MutexUnlock);
            }
            drop(g);
            rt::wake_all(self.lock.key());
        }
    }
}

impl<T: ?Sized> Drop for RwLockWriteGuard<'_, T> {
    fn drop(&mut self) {
        if let Some(g) = self.guard.take() {
            if rt::in_sim() && !std::thread::panicking() {
                rt::point(Op::MutexUnlock);
            }
            drop(g);
            rt::wake_all(self.lock.key());
        }
    }
}

impl<T: ?Sized + fmt::Debug> fmt::Debug for RwLockReadGuard<'_, T> {
    fn fmt(&self, f: &mut fmt::Formatter<'_>) -> fmt::Result {
        fmt::Debug::fmt(&**self, f)
    }
}

impl<T: ?Sized + fmt::Debug> fmt::Debug for RwLockWriteGuard<'_, T> {
    fn fmt(&self, f: &mut fmt::Formatter<'_>) -> fmt::Result {
        fmt::Debug::fmt(&**self, f)
    }
}

/// std::sync::Barrier on top of the simulated Mutex and Condvar
pub struct Barrier {
    lock: Mutex<(usize, usize)>,
    cvar: Condvar,
    n: usize,
}

pub struct BarrierWaitResult(bool);

impl BarrierWaitResult {
    pub fn is_leader(&self) -> bool {
        self.0
    }
}

impl Barrier {
    pub fn new(n: usize) -> Barrier {
        Barrier { lock: Mutex::new((0, 0)), cvar: Condvar::new(), n }
    }
    pub fn wait(&self) -> BarrierWaitResult {
        let mut g = self.lock.lock().unwrap();
        let gen = g.1;
        g.0 += 1;
        if g.0 < self.n {
            while gen == g.1 {
                g = self.cvar.wait(g).unwrap();
            }
            BarrierWaitResult(false)
        } else {
            g.0 = 0;
            g.1 = g.1.wrapping_add(1);
            self.cvar.notify_all();
            BarrierWaitResult(true)
        }
    }
}

impl fmt::Debug for Barrier {
    fn fmt(&self, f: &mut fmt::Formatter<'_>) -> fmt::Result {
        f.write_str("Barrier { .. }")
    }
}

/// std::sync::Once: callers that lose the race wait on a simulated mutex, not in the OS
pub struct Once {
    done: std::sync::atomic::AtomicBool,
    lock: Mutex<()>,
}

impl Once {
    pub const fn new() -> Once {
        Once { done: std::sync::atomic::AtomicBool::new(false), lock: Mutex::new(()) }
    }
    pub fn call_once<F: FnOnce()>(&self, f: F) {
        if self.done.load(std::sync::atomic::Ordering::Acquire) {
            return;
        }
        let _g = self.lock.lock().unwrap_or_else(|p| p.into_inner());
        if !self.done.load(std::sync::atomic::Ordering::Acquire) {
            f();
            self.done.store(true, std::sync::atomic::Ordering::Release);
        }
    }
    pub fn is_completed(&self) -> bool {
        self.done.load(std::sync::atomic::Ordering::Acquire)
    }
}

impl Default for Once {
    fn default() -> Self {
        Once::new()
    }
}

/// std::sync::OnceLock: initialisation is serialised by a simulated mutex
pub struct OnceLock<T> {
    cell: std::sync::OnceLock<T>,
    lock: Mutex<()>,
}

impl<T> OnceLock<T> {
    pub const fn new() -> OnceLock<T> {
        OnceLock { cell: std::sync::OnceLock::new(), lock: Mutex::new(()) }
    }
    pub fn get(&self) -> Option<&T> {
        self.cell.get()
    }
    pub fn get_mut(&mut self) -> Option<&mut T> {
        self.cell.get_mut()
    }
    pub fn set(&self, value: T) -> Result<(), T> {
        let _g = self.lock.lock().unwrap_or_else(|p| p.into_inner());
        self.cell.set(value)
    }
    pub fn get_or_init<F: FnOnce() -> T>(&self, f: F) -> &T {
        if let Some(v) = self.cell.get() {
            return v;
        }
        let _g = self.lock.lock().unwrap_or_else(|p| p.into_inner());
        self.cell.get_or_init(f)
    }
    pub fn into_inner(self) -> Option<T> {
        self.cell.into_inner()
    }
    pub fn take(&mut self) -> Option<T> {
        self.cell.take()
    }
}

impl<T> Default for OnceLock<T> {
    fn default() -> Self {
        OnceLock::new()
    }
}

impl<T: fmt::Debug> fmt::Debug for OnceLock<T> {
    fn fmt(&self, f: &mut fmt::Formatter<'_>) -> fmt::Result {
        fmt::Debug::fmt(&self.cell, f)
    }
}

/// std::sync::mpsc on top of the simulated channel
pub mod mpsc {
    use crate::channel as ch;
    pub use crate::channel::{RecvError, RecvTimeoutError, SendError, TryRecvError, TrySendError};
    use std::time::Duration;

    pub struct Sender<T>(ch::Sender<T>);
    pub struct SyncSender<T>(ch::Sender<T>);
    pub struct Receiver<T>(ch::Receiver<T>);

    pub fn channel<T>() -> (Sender<T>, Receiver<T>) {
        let (s, r) = ch::unbounded();
        (Sender(s), Receiver(r))
    }

    pub fn sync_channel<T>(bound: usize) -> (SyncSender<T>, Receiver<T>) {
        let (s, r) = ch::bounded(bound);
        (SyncSender(s), Receiver(r))
    }

    impl<T> Sender<T> {
        pub fn send(&self, t: T) -> Result<(), SendError<T>> {
            self.0.send(t)
        }
    }
    impl<T> Clone for Sender<T> {
        fn clone(&self) -> Self {
            Sender(self.0.clone())
        }
    }
    impl<T> SyncSender<T> {
        pub fn send(&self, t: T) -> Result<(), SendError<T>> {
            self.0.send(t)
        }
        pub fn try_send(&self, t: T) -> Result<(), TrySendError<T>> {
            self.0.try_send(t)
        }
    }
    impl<T> Clone for SyncSender<T> {
        fn clone(&self) -> Self {
            SyncSender(self.0.clone())
        }
    }
    impl<T> Receiver<T> {
        pub fn recv(&self) -> Result<T, RecvError> {
            self.0.recv()
        }
        pub fn try_recv(&self) -> Result<T, TryRecvError> {
            self.0.try_recv()
        }
        pub fn recv_timeout(&self, d: Duration) -> Result<T, RecvTimeoutError> {
            self.0.recv_timeout(d)
        }
        pub fn iter(&self) -> ch::Iter<'_, T> {
            self.0.iter()
        }
        pub fn try_iter(&self) -> ch::TryIter<'_, T> {
            self.0.try_iter()
        }
    }
    impl<T> IntoIterator for Receiver<T> {
        type Item = T;
        type IntoIter = IntoIter<T>;
        fn into_iter(self) -> IntoIter<T> {
            IntoIter(self)
        }
    }
    pub struct IntoIter<T>(Receiver<T>);
    impl<T> Iterator for IntoIter<T> {
        type Item = T;
        fn next(&mut self) -> Option<T> {
            self.0.recv().ok()
        }
    }
    impl<T> std::fmt::Debug for Sender<T> {
        fn fmt(&self, f: &mut std::fmt::Formatter<'_>) -> std::fmt::Result {
            f.write_str("Sender { .. }")
        }
    }
    impl<T> std::fmt::Debug for SyncSender<T> {
        fn fmt(&self, f: &mut std::fmt::Formatter<'_>) -> std::fmt::Result {
            f.write_str("SyncSender { .. }")
        }
    }
    impl<T> std::fmt::Debug for Receiver<T> {
        fn fmt(&self, f: &mut std::fmt::Formatter<'_>) -> std::fmt::Result {
            f.write_str("Receiver { .. }")
        }
    }
}
