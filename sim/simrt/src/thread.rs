//! std::thread look-alike: real OS threads registered with the simulator.
pub use std::thread::{available_parallelism, current, panicking, AccessError, LocalKey, Result, Thread, ThreadId};

use crate::rt::{self, Ctx, Obj, Op, Parker};
use std::io;
use std::sync::{Arc, Mutex as StdMutex};
use std::time::Duration;

pub struct JoinHandle<T> {
    inner: Inner<T>,
}

enum Inner<T> {
    Sim { tid: rt::Tid, packet: Arc<StdMutex<Option<Result<T>>>>, thread: Thread },
    Real(std::thread::JoinHandle<T>),
}

impl<T> JoinHandle<T> {
    pub fn join(self) -> Result<T> {
        match self.inner {
            Inner::Real(h) => h.join(),
            Inner::Sim { tid, packet, .. } => {
                rt::point(Op::Join);
                while !rt::thread_is_finished(tid) {
                    rt::block(Obj::Thread(tid), None);
                }
                let r = packet.lock().unwrap().take();
                r.expect("simrt: joined thread left no result")
            }
        }
    }
    pub fn thread(&self) -> &Thread {
        match &self.inner {
            Inner::Real(h) => h.thread(),
            Inner::Sim { thread, .. } => thread,
        }
    }
    pub fn is_finished(&self) -> bool {
        match &self.inner {
            Inner::Real(h) => h.is_finished(),
            Inner::Sim { tid, .. } => rt::thread_is_finished(*tid),
        }
    }
    /// simulated thread id (harness use)
    pub fn sim_tid(&self) -> Option<rt::Tid> {
        match &self.inner {
            Inner::Real(_) => None,
            Inner::Sim { tid, .. } => Some(*tid),
        }
    }
}

#[derive(Default, Debug)]
pub struct Builder {
    name: Option<String>,
    stack_size: Option<usize>,
}

impl Builder {
    pub fn new() -> Builder {
        Builder::default()
    }
    pub fn name(mut self, name: String) -> Builder {
        self.name = Some(name);
        self
    }
    pub fn stack_size(mut self, size: usize) -> Builder {
        self.stack_size = Some(size);
        self
    }
    pub fn spawn<F, T>(self, f: F) -> io::Result<JoinHandle<T>>
    where
        F: FnOnce() -> T + Send + 'static,
        T: Send + 'static,
    {
        let Some(c) = rt::ctx() else {
            let mut b = std::thread::Builder::new();
            if let Some(n) = self.name {
                b = b.name(n);
            }
            if let Some(s) = self.stack_size {
                b = b.stack_size(s);
            }
            return b.spawn(f).map(|h| JoinHandle { inner: Inner::Real(h) });
        };
        rt::point(Op::Spawn);
        if rt::spawn_should_fail(&self.name) {
            return Err(io::Error::new(io::ErrorKind::WouldBlock, "simrt: injected EAGAIN"));
        }
        let parker = Parker::new();
        let packet: Arc<StdMutex<Option<Result<T>>>> = Arc::new(StdMutex::new(None));
        let p2 = packet.clone();
        let tid = rt::register_thread(&c, parker.clone(), self.name.clone());
        let child = Ctx { sim: c.sim.clone(), tid, parker: parker.clone() };
        let mut b = std::thread::Builder::new().stack_size(self.stack_size.unwrap_or(512 * 1024));
        if let Some(n) = self.name {
            b = b.name(n);
        }
        let h = b
            .spawn(move || {
                rt::enter_thread(child);
                let r = std::panic::catch_unwind(std::panic::AssertUnwindSafe(f));
                let panicked = r.is_err();
                *p2.lock().unwrap() = Some(r);
                drop(p2);
                rt::exit_thread(panicked);
            })
            .expect("simrt: OS thread spawn failed (harness resource problem)");
        let thread = h.thread().clone();
        parker.set_thread(thread.clone());
        Ok(JoinHandle { inner: Inner::Sim { tid, packet, thread } })
    }
}

pub fn spawn<F, T>(f: F) -> JoinHandle<T>
where
    F: FnOnce() -> T + Send + 'static,
    T: Send + 'static,
{
    Builder::new().spawn(f).expect("failed to spawn thread")
}

pub fn sleep(d: Duration) {
    if !rt::in_sim() {
        std::thread::sleep(d);
        return;
    }
    if d.is_zero() {
        rt::point(Op::Yield);
        return;
    }
    rt::point(Op::Sleep);
    let dl = rt::now_ns().saturating_add(d.as_nanos().min(u64::MAX as u128) as u64);
    rt::block(Obj::Sleep, Some(dl));
}

pub fn yield_now() {
    if !rt::in_sim() {
        std::thread::yield_now();
        return;
    }
    rt::point(Op::Yield);
}

/// std::thread::park: returns at once after a scheduling point.  park() may wake spuriously by
/// contract, so its callers re-check their condition; Thread::unpark stays the real one.
pub fn park() {
    yield_now();
}

pub fn park_timeout(d: Duration) {
    if d.is_zero() {
        yield_now();
    } else {
        sleep(d.min(Duration::from_millis(1)));
    }
}
