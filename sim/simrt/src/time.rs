//! Virtual time.
pub use std::time::{Duration, SystemTime, SystemTimeError, UNIX_EPOCH};
use std::ops::{Add, AddAssign, Sub};

#[derive(Clone, Copy, PartialEq, Eq, PartialOrd, Ord, Hash, Debug)]
pub struct Instant(u64);

impl Instant {
    /// Reading the clock is a visible operation: a scheduling point (it also breaks up otherwise
    /// atomic stretches of code between two synchronisation operations).
    pub fn now() -> Instant {
        crate::rt::point(crate::rt::Op::User);
        Instant(crate::rt::now_ns())
    }
    pub fn elapsed(&self) -> Duration {
        Instant::now().duration_since(*self)
    }
    pub fn duration_since(&self, earlier: Instant) -> Duration {
        Duration::from_nanos(self.0.saturating_sub(earlier.0))
    }
    pub fn saturating_duration_since(&self, earlier: Instant) -> Duration {
        self.duration_since(earlier)
    }
    pub fn checked_duration_since(&self, earlier: Instant) -> Option<Duration> {
        self.0.checked_sub(earlier.0).map(Duration::from_nanos)
    }
    pub fn checked_add(&self, d: Duration) -> Option<Instant> {
        self.0.checked_add(d.as_nanos() as u64).map(Instant)
    }
    pub fn checked_sub(&self, d: Duration) -> Option<Instant> {
        self.0.checked_sub(d.as_nanos().min(u64::MAX as u128) as u64).map(Instant)
    }
    pub fn as_nanos(&self) -> u64 {
        self.0
    }
}

impl std::ops::SubAssign<Duration> for Instant {
    fn sub_assign(&mut self, d: Duration) {
        *self = *self - d;
    }
}

impl Add<Duration> for Instant {
    type Output = Instant;
    fn add(self, d: Duration) -> Instant {
        Instant(self.0.saturating_add(d.as_nanos().min(u64::MAX as u128) as u64))
    }
}
impl AddAssign<Duration> for Instant {
    fn add_assign(&mut self, d: Duration) {
        *self = *self + d;
    }
}
impl Sub<Duration> for Instant {
    type Output = Instant;
    fn sub(self, d: Duration) -> Instant {
        Instant(self.0.saturating_sub(d.as_nanos() as u64))
    }
}
impl Sub<Instant> for Instant {
    type Output = Duration;
    fn sub(self, o: Instant) -> Duration {
        self.duration_since(o)
    }
}
